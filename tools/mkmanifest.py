#!/usr/bin/env python3
"""Regenerates /verif/MANIFEST.json from the table below (one entry per claimed property)."""
import json
import os

V = os.path.dirname(os.path.dirname(os.path.abspath(__file__)))
TECH = "TLA+ specification checked by TLC; TLC-generated behaviours replayed in the implementation, state compared after every program"

CLAIMED = {
 "C01": dict(
    text="TLC exhaustively explores specs/ViewAlgebra.tla (documented index mappings: MultiSem.tla; code-shaped (stride,offset,nelems) model: MultiLayout.tla) for all roots and operation sequences within the stated constants, checking Refines/InBounds/Affine on every state; every transition is emitted as a program and replayed on the real library, whose shape, extensions, strides and cells through nine access paths must equal what the specification prescribes.",
    note="bounded: roots D<=3 (4 in thorough), extents 0..3, programs of <=2 (3) operations; trusted: TLC, the replayer's projection (address - data_elements()), g++.",
    ref="DESIGN.md section 5 C01"),
 "C19": dict(
    text="Same machinery as C01 over roots constructed from explicit index extensions with bases in {-1,0,2} per dimension plus reindexed/blocked: TLC checks that the documented mappings and the code-shaped layout arithmetic agree for re-based roots, and every transition is replayed on the real library (element access, slicing by index, iteration, elements()); in addition ArrayOps.tla histories over arrays with index bases (construction from index extensions, copy, move, assignment from views, reextent by index extensions with and without fill, reshape, swap) are replayed and extents, index bases and elements compared.",
    note="bounded as C01 (D<=3); index bases of derived views are demanded only where the operation names them (construction, reindexed, blocked).",
    ref="DESIGN.md section 5 C19"),
 "C02": dict(
    text="TLC enumerates specs/Iterators.tla: for every root (D<=3, extents 0..3) and every view one operation away, all iterator programs over two registers (begin/end/++/--/post-inc/dec/+=/-=/+/-/assign/copy) within the bounds, for begin()/end() iterators and for elements() iterators; each program is replayed on the real library and position (it-begin, end-it), differences, all six comparisons, dereferenced cells, it[n] for every in-range n, copies and const iterators must equal what the position semantics of the specification prescribes.",
    note="bounded: ranges of <= 6 positions, offsets in {-2..2}, programs of <= 2 operations after merging by position pair (edge coverage) plus all unmerged programs of length <= 2 on 2-D roots; cursors are covered as an access path of C01.",
    ref="DESIGN.md section 5 C02"),
 "C04": dict(
    text="TLC enumerates specs/ArrayOps.tla: histories over a pool of array variables of every constructor form, copy/move construction and assignment, assignment from views through one- and two-operation layout wrappers, from another element type, from nested initializer lists, swap, decay/unary plus, element writes and destruction; the specification prescribes the value (extents, index bases, elements) of every array after every history; each history is replayed on real multi::array objects (int and std::string elements) and values, storage disjointness and storage transfer on move must agree.",
    note="bounded: 2 array variables (3 in thorough), D 1..3 (4 in thorough), extents 0..2/3, histories of <= 3 operations; D=0 arrays are not covered; unspecified values of new trivial elements are not compared.",
    ref="DESIGN.md section 5 C04"),
 "C06": dict(
    text="Same specification restricted to the C06 operation set: TLC enumerates every (old extents, new extents) pair within the bounds for reextent with and without a fill value, reshape to every extents of equal element count, clear, assignment from {}, assign(first,last) and initializer-list assignment, interleaved with copies and writes; the prescribed values (common part kept, fill or value-initialised elsewhere) are compared with real arrays over int, std::string and a trivially-copyable-but-not-trivially-default-constructible struct allocated from pattern-filled memory; reextent to the same extents must keep the storage.",
    note="bounded: D 1..4, extents 0..3 (D<=2), 0..2 (D=3), 0..1 (D=4) in the quick tier; array::assign(extensions, value) does not compile at the pinned commit and is not exercised.",
    ref="DESIGN.md section 5 C06"),
 "C07": dict(
    text="specs/Compare.tla defines == (same extents and equal elements) and < (lexicographic over the leading dimension, recursively, proper prefix smaller) on operand values; TLC checks trichotomy, irreflexivity, antisymmetry, transitivity, ==-transitivity and <=/>= consistency on every triple within the bounds, and emits every pair with the six prescribed results; each pair is materialised as array, const array, array_ref, rotated/strided view, padded sub-block view and array<long> (36 combinations, plus aliasing views of one storage) and all six real operators are evaluated in both argument orders.",
    note="bounded: D 1..3 (4 in thorough), extents 0..3, <= 6 elements per operand, values {0,1(,2)}; for empty operands only ==/!= consistency is demanded; ordering between different element types is not provided by the library and not demanded; D=0 not covered.",
    ref="DESIGN.md section 5 C07"),
 "C08": dict(
    text="Histories of specs/ArrayOps.tla (every constructor form, copy, move, assignment with equal and different extents, reextent in all three overloads, clear, swap, reshape, assign, destruction) are executed on arrays of a tracked element type over a ledger allocator; every allocate/deallocate/construct/assign/destroy event the library performs is recorded and stepped through the TLA+ monitor specs/Lifecycle.tla, which evaluates at every event ConstructOnRaw, UseOnAlive, DestroyOnAlive, DeallocExact (size, allocator, no live elements) and at the end of every operation HandleConsistent and NoLeak; element values are compared with the specification as in C04; a second run over int with pattern-filled storage demands that elements left unspecified by sizing constructors and reextent were not written.",
    note="bounded: D 1..2 (3 in thorough), extents 0..3, histories of <= 3 operations over 2 arrays (about 3 million events in the quick tier); serialization-load histories are exercised by C17; trusted: the tracked type/allocator report faithfully.",
    ref="DESIGN.md section 5 C08", tech="TLA+ trace monitor (Lifecycle.tla) validating event traces recorded from the implementation on TLC-generated histories"),
 "C09": dict(
    cat="fault_enumeration",
    text="For every history of specs/ArrayOps.tla within the bounds and every injection point k of its last operation (the k-th allocation, element construction or element assignment, counted on a fault-free run), the history is re-executed with that point throwing (bad_alloc from the ledger allocator, an exception from the tracked element); the recorded events, the state of every array at the end of the failed operation, a probe sequence (read all, copy-assign a fresh array, destroy) and the final state are validated by the TLA+ monitor specs/Lifecycle.tla: NoLeak, HandleConsistent, DestroyOnAlive/DeallocExact (nothing twice), ReachesCaller (no std::terminate), and NoAllocWhenNotNeeded for same-extent assignment, assignment through views, swap, move, clear.",
    note="single fault per history, exhaustive over the injection points of the last operation (every prefix is itself a history); D 1..2 (3 in thorough), extents 0..2; one open finding (rollback of the iterator-pair constructor for D>=2) is listed in known_findings.txt.",
    ref="DESIGN.md section 5 C09", tech="exhaustive single-fault injection on TLC-generated histories; traces validated by the TLA+ monitor Lifecycle.tla"),
 "C10": dict(
    text="specs/ArrayOps.tla carries the allocator instance of every array and prescribes it after every operation as a function of the traits (select_on_container_copy_construction on copy construction, replacement on copy/move assignment and swap exactly when the propagate trait is true, the supplied instance for allocator-extended constructors, storage transfer on move only between equal allocators); for each of the 16 combinations of POCCA/POCMA/POCS/is_always_equal the replayer is instantiated with a stateful ledger allocator (instances 1~2 equal, 3 unequal), every history is executed, get_allocator() of every array is compared with the specification, and every event is validated by Lifecycle.tla: blocks are released through an allocator equal to their producer and each array's block was made by an allocator equal to its get_allocator().",
    note="bounded: D=1, extents 0..1 (0..2 thorough), histories of <= 3 (4) operations over 2 arrays; swap of unequal non-propagating allocators is excluded as undefined; std::pmr is represented by the all-false trait configuration of the ledger allocator (same code path), not by a separate memory_resource run.",
    ref="DESIGN.md section 5 C10", tech="TLA+ specification of allocator propagation replayed in 16 trait configurations + TLA+ trace monitor (Lifecycle.tla) on recorded allocator events"),
 "C05": dict(
    text="specs/ViewAssign.tla extends the view state machine with one assignment-like operation on the view reached by every program (depth <= 2): from an array, a const view, views with rotated / inner-transposed / padded memory layouts (lvalue and rvalue), another element type, (nested) std::vector ranges, initializer lists, fill(value_type), std::fill on elements(), elements() assignment, swap with a view of different and of identical layout, and moving from the view; it prescribes the whole store afterwards (Exact: cell of position k holds source value k; Frame: every other cell unchanged). The destination root is an array_ref into a guarded buffer; after the real operation the complete buffer, the guards, the source and the second view's frame are compared with the prescription.",
    note="bounded: roots D<=3, extents 0..3, destination programs of <= 2 operations (broadcast excluded: it aliases cells); D=0 destinations are not covered; sources always have the destination's extents (mismatches belong to C20).",
    ref="DESIGN.md section 5 C05"),
 "C03": dict(
    text="specs/AlgGen.tla enumerates view x range kind (begin()/end() with proxy sub-view items, or elements()) x algorithm (all 20 of the property plus copy-from) x argument, prescribing the item cells of each range from the documented view semantics; the replayer runs the real std algorithm on pseudo-random data with duplicates and records the whole storage and the auxiliary range before and after plus the returned position; the TLA+ monitor specs/Algorithms.tla validates every record against the algorithm's contract on independent value sequences (equality for determined algorithms; sorted-prefix/permutation/partition/unique/remove postconditions for the others) and the Frame condition (every cell outside the view unchanged).",
    note="bounded: roots D<=3, extents 0..3, views one operation away (two in thorough), ranges of <= 9 items, values 0..2, 2 data seeds (12 thorough); heap corruption caused by a wild write is attributed to the running case.",
    ref="DESIGN.md section 5 C03", tech="TLC-generated cases executed in the implementation; recorded traces validated by the TLA+ monitor Algorithms.tla"),
 "C20": dict(
    text="R1/R2: every program of ViewAlgebra.tla and ArrayOps.tla within the bounds (and thereby what C01/C04/C06 judge) is replayed by three builds of the same replayers (default, -DNDEBUG, -DBOOST_MULTI_ASSERT_DISABLE); the default build must run assertion-free and the three observation records must be identical. R3: specs/Contracts.tla appends to every view program one step outside the documented domain (index just outside / two outside the extension through brackets, through the last bracket of a chain and through call syntax; assignment from an array one longer / one shorter), TLC checks each really is out of domain, and the replayer (assertion-enabled, guarded buffer) must observe a library assertion stopping it.",
    note="bounded: roots D<=3, extents 0..2/3, programs of <= 2 operations; slicing out of range is not among the promised stops (the 1-D sliced has no assertion) and is not demanded; an out-of-bounds READ that precedes a later assertion would not be seen (writes are, through guard cells).",
    ref="DESIGN.md section 5 C20"),
 "C12": dict(
    text="specs/Projection.tla extends the view state machine: a view program on an array of records {short a; short b;}, then one projection (member_cast of either member, reinterpret_array_cast<int32>() in place, reinterpret_array_cast<short>(2) adding a trailing dimension, static_array_cast to const, const_array_cast, as_const, lazy element_transformed(f) read after the source was mutated, element_transformed with a reference-returning function written through, conversion to an array of another element type; the casts also through const views), then view operations on the projected view; the specification prescribes the resulting shape, the storage unit every element designates and the value read there; the replayer reports the same from the real views (addresses relative to the root's storage) and they must agree; write-through and storage independence of converted arrays are checked on the root afterwards.",
    note="bounded: roots D<=3, extents 0..3, one view operation before and one after the cast (two in thorough); little-endian; const_array_cast/as_const do not exist for 1-D views; complex real/imag projections are not exercised here.",
    ref="DESIGN.md section 5 C12"),
 "C17": dict(
    text="specs/Serialization.tla models the archive as a token sequence (per dimension first and last index, then the elements in canonical order) and Load as 'take the saved extensions whatever the target held'; TLC checks the round trip on the model for every array within the bounds and every prior state of the target (empty, same extents, other extents) and emits the prescribed token stream; the replayer performs the real round trip through Boost.Serialization text, binary and XML archives for int, double and std::string elements and the loaded array must equal the original (extents as the library reports them, index bases, elements, operator==) and the XML token order must equal the prescribed stream; every ViewAlgebra view is saved and loaded into a fresh array's view and into a view with rotated memory layout: exactly the view's elements in canonical order, other elements untouched, source unchanged.",
    note="bounded: D 1..4, extents 0..3/2/2/1, index bases {-1,0,2} for D<=2; views: roots D<=3, extents 0..2, programs of <= 2 operations; nested-array element types and D=0 are not exercised; the life cycle of the load path is not re-validated here (C08 covers clear/reextent).",
    ref="DESIGN.md section 5 C17"),
 "C18": dict(
    text="For every view of ViewAlgebra.tla (which prescribes the view's canonical cells) the replayer builds mpi::message(view.elements()) in one MPI process; every MPI_Type_create_hvector/_resized/_dup/_vector/_commit/_free call is recorded through the PMPI profiling interface and validated by the TLA+ monitor specs/MpiTypes.tla, which rebuilds the type map of every handle from the constructor arguments and requires that (buffer, count, datatype) denotes exactly the prescribed cells x sizeof(int) in order, that the datatype is committed before use and that every created handle is freed exactly once; end to end, MPI_Pack of the message must yield the view's elements in canonical order and MPI_Unpack through the message of a view with rotated memory layout must put the k-th element into the k-th element and touch nothing else.",
    note="bounded: roots D<=3 (4 in thorough), extents 0..3, programs of <= 2 operations, element type int; pack/unpack on MPI_COMM_SELF stand for send/receive; mpi::data(iterator) and create_subarray are not exercised.",
    ref="DESIGN.md section 5 C18", tech="TLA+ trace monitor (MpiTypes.tla) over PMPI-recorded datatype calls on TLC-generated views + end-to-end pack/unpack comparison with the specification's cells"),
 "C16": dict(
    text="specs/Constness.tla is a transition system over static descriptions of expressions (category: view, iterator, elements range, elements iterator, cursor, element; dimensionality; writable?) with the rule w' = w and not ConstForcing(step); TLC checks NoEscalation on it and enumerates every access path of bounded length from 9 start kinds (array, static_array, array_ref, each const and non-const; views held by auto&&, by auto const&, and views of const arrays held by auto&&) in dimensionalities 1..3 with the prescribed writability; each path becomes a C++ expression over std::declval whose type is observed at compile time with the detection idiom: is an element reached through it (chained brackets, *elements().begin(), home() cursor, nested *begin()) assignable; read-only paths must offer no assignable element, writable paths must; plus the fixed facts (views and array_ref have no reextent/clear, a named view cannot be copy-constructed).",
    note="bounded: paths of length <= 2 (3 in thorough, sampled above 120k), D 1..3; a path that is ill-formed for its start type is not judged; 'accepts assignment/fill/swap' is judged at element level only (an operator= whose declaration is well-formed but whose body would fail cannot be seen by the detection idiom).",
    ref="DESIGN.md section 5 C16", tech="TLA+ transition system enumerated by TLC; each path replayed as a compile-time observation of the implementation's types"),
 "C14": dict(
    text="specs/LapackGen.tla enumerates the case lattice (routine x orientation x padding x triangle x shape x sizes x element type); the replayer builds exactly representable data (L*L^H with integer/Gaussian-integer L and power-of-two diagonal, optional planted non-positive pivot, garbage in the triangle/padding that must not be read; small integer matrices for geqrf/gesvd), calls potrf/geqrf/gesvd through the adaptor and logs whole guarded buffers before and after in fixed point; the TLA+ monitor specs/Lapack.tla prescribes the cell of every view element from the descriptor and checks per record: potrf returns the leading k x k block with k computed by exact integer Cholesky, the factor reproduces the selected triangle exactly, the other triangle, padding and guards are unchanged; geqrf: R upper trapezoidal, reflectors orthogonal, H1..Hk R = A0 within 1/16; gesvd: A0 = U diag(s) W with W = V^T, s non-negative non-increasing, U and W orthogonal within 2^-6; only documented outputs change.",
    note="sizes 1..4 (6 thorough), element types d,z (s,d,c,z thorough); rounding-level accuracy is delegated to LAPACK (tolerances far above rounding, far below the O(1) error of a wrong triangle/stride); syev.hpp does not compile at the pinned commit (open finding) and getrf is excluded by the property; LAPACK call arguments are not intercepted (frame decided from buffers).",
    ref="DESIGN.md section 5 C14", tech="TLC-enumerated case lattice executed in the implementation; recorded inputs/outputs validated by the TLA+ monitor Lapack.tla (exact integer / fixed-point arithmetic)"),
 "C11": dict(
    text="Re-binding: the TLC-generated programs of C01 (ViewAlgebra.tla views), C02 (Iterators.tla) and C04/C06 (ArrayOps.tla histories over owning arrays, int and std::string elements) are replayed with the same replayers instantiated over two more pointer families supplied by the harness: a minimal fancy pointer (class type, own arithmetic/comparison/dereference, no implicit conversion to or from T*, plain T& references; used as array_ref/view pointer and as allocator::pointer) and a bounds-checking pointer that records every dereference outside its block or of null and every arithmetic/comparison across blocks. Every observation must equal what the specifications prescribe (exactly as judged for raw pointers) and the checking pointer must have recorded nothing; a program family that does not compile over a pointer family is itself a violation.",
    note="bounded as the quick tiers of C01/C02/C04/C06 (roots D<=3, extents 0..2/3, programs <= 2-3 operations); library code no such program instantiates is not observed; assignment/comparison/algorithm programs (C03, C05, C07) are not re-bound; two open findings (dereference of *first of an empty iterator range) are listed in known_findings.txt.",
    ref="DESIGN.md section 5 C11"),
}

props = [json.loads(l) for l in open(os.path.join(V, "properties.jsonl"))]
REASONS = {}
checks = []
for pid, c in CLAIMED.items():
    checks.append({
        "property_id": pid,
        "quick_cmd": "bin/vcheck %s --tier quick" % pid,
        "thorough_cmd": "bin/vcheck %s --tier thorough" % pid,
        "evidence_file": "/verif/evidence/%s.json" % pid,
        "replay_cmd_template": "bin/vcheck %s --replay {path}" % pid,
        "engine": "tlc+replay",
        "level_claimed": {"category": c.get("cat", "model_checking"), "text": c["text"], "design_ref": c["ref"]},
        "level_note": c["note"],
        "technique": c.get("tech", TECH),
    })
m = {
 "version": 1,
 "setup_cmd": "make -C /verif setup",
 "hooks": {"guard": "BOOST_MULTI_VERIF_HOOKS",
           "enable": "no hooks are needed: the library is sequential and its abstract state is observable through the public API; replayers are compiled against /repo/include on every run",
           "baseline_off_cmd": "cmake --build /repo/_build -j16 && OMPI_ALLOW_RUN_AS_ROOT=1 OMPI_ALLOW_RUN_AS_ROOT_CONFIRM=1 ctest --test-dir /repo/_build -j8 --timeout 900",
           "source_commits": [], "add_only": True},
 "engines": [{"name": "tlc+replay", "path": "/verif/tools/vcheck.py", "serves_properties": sorted(CLAIMED),
              "kind_free_text": "TLA+ specifications checked by TLC; generated behaviours replayed on the real library / recorded traces validated by TLA+ monitors"}],
 "checks": checks,
 "not_applicable": [{"property_id": p["id"], "reason": REASONS.get(p["id"], "check not built yet (planned, see DESIGN.md section 5); not claimed until its check exists")}
                    for p in props if p["id"] not in CLAIMED],
 "notes": "Genuine defects found and repaired are listed in /verif/known_findings.txt (fixed: lines) with the /repo commit of each fix.",
}
json.dump(m, open(os.path.join(V, "MANIFEST.json"), "w"), indent=1)
print("MANIFEST.json:", len(checks), "checks")
