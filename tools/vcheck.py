#!/usr/bin/env python3
"""bin/vcheck <property> --tier quick|thorough  |  bin/vcheck <property> --replay <path>
exit 0: property held on everything explored; 1: VIOLATION printed; 2: the check is broken."""
import argparse
import importlib
import os
import sys
import traceback

sys.path.insert(0, os.path.dirname(os.path.abspath(__file__)))
import vlib  # noqa: E402


def generic_replay(mod, prop, path):
    """re-executes the check that produced the replay file and reports whether a violation with the same
    signature (same operation / input class) is found again; exit 1 when it is, 0 when it is not"""
    import json
    rec = json.load(open(path))
    want = rec.get("sig")
    print("replaying %s: signature %s" % (path, json.dumps(want, sort_keys=True)))
    print("recorded detail:", json.dumps(rec.get("detail"), default=str)[:1500])
    mod.run("quick")
    got = json.load(open(os.path.join(vlib.BUILD, "last_signatures_%s.json" % prop)))
    again = want in got
    print("REPRODUCED" if again else "NOT REPRODUCED", "(the check re-generated and re-executed its cases against %s)" % vlib.REPO)
    return 1 if again else 0


def main():
    ap = argparse.ArgumentParser()
    ap.add_argument("prop")
    ap.add_argument("--tier", default=os.environ.get("VERIF_TIER", "quick"), choices=["quick", "thorough"])
    ap.add_argument("--replay")
    a = ap.parse_args()
    mod = importlib.import_module("checks." + a.prop.lower())
    try:
        if a.replay:
            if hasattr(mod, "replay"):
                rc = mod.replay(a.replay)
            else:
                rc = generic_replay(mod, a.prop, a.replay)
        else:
            rc = mod.run(a.tier)
    except vlib.Broken as e:
        print("BROKEN %s: %s" % (a.prop, e), file=sys.stderr)
        sys.exit(2)
    except Exception:
        traceback.print_exc()
        sys.exit(2)
    sys.exit(rc)


if __name__ == "__main__":
    main()
