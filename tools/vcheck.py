#!/usr/bin/env python3
"""bin/vcheck <property> --tier quick|thorough  |  bin/vcheck <property> --replay <path>
exit 0: property held on everything explored; 1: VIOLATION printed; 2: the check is broken."""
import argparse
import importlib
import os
import sys
import traceback

sys.path.insert(0, os.path.dirname(os.path.abspath(__file__)))
import vlib  # noqa: E402


def main():
    ap = argparse.ArgumentParser()
    ap.add_argument("prop")
    ap.add_argument("--tier", default=os.environ.get("VERIF_TIER", "quick"), choices=["quick", "thorough"])
    ap.add_argument("--replay")
    a = ap.parse_args()
    mod = importlib.import_module("checks." + a.prop.lower())
    try:
        if a.replay:
            rc = mod.replay(a.replay)
        else:
            rc = mod.run(a.tier)
    except vlib.Broken as e:
        print("BROKEN %s: %s" % (a.prop, e), file=sys.stderr)
        sys.exit(2)
    except Exception:
        traceback.print_exc()
        sys.exit(2)
    sys.exit(rc)


if __name__ == "__main__":
    main()
