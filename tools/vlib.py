"""Shared plumbing for the /verif checks: running TLC, compiling replayers against the
current /repo tree, known findings, evidence files.  Deliberately thin: every verdict is
either a TLC verdict or an equality between a value TLC computed from the specification
and a value the real library produced."""
import hashlib
import json
import os
import re
import shutil
import subprocess
import sys
import time

VERIF = os.path.dirname(os.path.dirname(os.path.abspath(__file__)))
REPO = os.environ.get("VERIF_REPO", "/repo")
SPECS = os.path.join(VERIF, "specs")
HARNESS = os.path.join(VERIF, "harness")
# runs against a scratch copy of the library (VERIF_REPO set: seeded changes, mutants) get their own scratch
# directories so that they neither disturb a concurrent real run nor overwrite the evidence of the real tree
_ALT = "" if os.path.realpath(REPO) == "/repo" else "_" + hashlib.sha1(os.path.realpath(REPO).encode()).hexdigest()[:8]
BUILD = os.path.join(VERIF, "build" + _ALT)
REPLAYS = os.path.join(VERIF, "replays") if not _ALT else os.path.join(BUILD, "replays")
EVIDENCE = os.path.join(VERIF, "evidence") if not _ALT else os.path.join(BUILD, "evidence")
NPROC = min(16, os.cpu_count() or 4)
CXX = os.environ.get("VERIF_CXX", "g++")
TLC_CP = "/opt/veriftools/tla/tla2tools.jar:/opt/veriftools/tla/CommunityModules-deps.jar"


class Broken(Exception):
    """the check itself could not run (exit 2) -- never a verdict about the property"""


def log(*a):
    print(*a, file=sys.stderr, flush=True)


def seed():
    try:
        return int(os.environ.get("VERIF_SEED", "1"))
    except ValueError:
        return 1


def workdir(name):
    d = os.path.join(BUILD, name)
    shutil.rmtree(d, ignore_errors=True)
    os.makedirs(d, exist_ok=True)
    return d


# ------------------------------------------------------------------------------------ TLC
class TlcResult:
    def __init__(self):
        self.rc = None
        self.out_path = None
        self.generated = 0
        self.distinct = 0
        self.depth = 0
        self.wall = 0.0
        self.violated = None     # name of violated invariant/property, if any
        self.error_text = ""
        self.coverage = {}


def write_cfg(path, spec="Spec", constants=None, invariants=(), properties=(), view=None,
              constraints=(), action_constraints=(), postcondition=None, init=None, nxt=None,
              deadlock=False, alias=None):
    lines = []
    if init and nxt:
        lines += ["INIT " + init, "NEXT " + nxt]
    else:
        lines.append("SPECIFICATION " + spec)
    if constants:
        lines.append("CONSTANTS")
        for k, v in constants.items():
            if isinstance(v, Sub):
                lines.append("  %s <- %s" % (k, v.name))
            else:
                lines.append("  %s = %s" % (k, tla_value(v)))
    if invariants:
        lines.append("INVARIANTS " + " ".join(invariants))
    if properties:
        lines.append("PROPERTIES " + " ".join(properties))
    if view:
        lines.append("VIEW " + view)
    for c in constraints:
        lines.append("CONSTRAINT " + c)
    for c in action_constraints:
        lines.append("ACTION_CONSTRAINT " + c)
    if postcondition:
        lines.append("POSTCONDITION " + postcondition)
    if alias:
        lines.append("ALIAS " + alias)
    lines.append("CHECK_DEADLOCK " + ("TRUE" if deadlock else "FALSE"))
    with open(path, "w") as f:
        f.write("\n".join(lines) + "\n")


class Sub:
    """cfg substitution  K <- DefinedOperator  (needed e.g. for sets with negative numbers)"""
    def __init__(self, name):
        self.name = name

    def __repr__(self):
        return "<-" + self.name


def tla_value(v):
    if isinstance(v, bool):
        return "TRUE" if v else "FALSE"
    if isinstance(v, int):
        return str(v)
    if isinstance(v, str):
        return json.dumps(v)
    if isinstance(v, (set, frozenset)):
        return "{" + ", ".join(sorted(tla_value(x) for x in v)) + "}"
    if isinstance(v, (list, tuple)):
        return "<<" + ", ".join(tla_value(x) for x in v) + ">>"
    raise TypeError(v)


def run_tlc(module, cfg_path, name, workers=NPROC, timeout=1500, simulate=None, depth=None,
            env=None, heap="12g", coverage=False, extra=()):
    """run TLC on specs/<module>.tla with the given cfg; stdout+stderr go to build/<name>.out"""
    res = TlcResult()
    meta = os.path.join(BUILD, "tlc", name)
    shutil.rmtree(meta, ignore_errors=True)
    os.makedirs(meta, exist_ok=True)
    out_path = os.path.join(BUILD, name + ".tlc.out")
    cmd = ["timeout", str(timeout), "java", "-XX:+UseParallelGC", "-Xmx" + heap, "-Djava.io.tmpdir=" + meta, "-cp", TLC_CP,
           "tlc2.TLC", "-workers", str(workers), "-metadir", meta, "-config", cfg_path]
    if simulate:
        cmd += ["-simulate", "num=%d" % simulate]
        cmd += ["-seed", str(seed())]
    if depth:
        cmd += ["-depth", str(depth)]
    if coverage:
        cmd += ["-coverage", "1"]
    cmd += list(extra)
    cmd.append(os.path.join(SPECS, module + ".tla"))
    e = dict(os.environ)
    if env:
        e.update(env)
    t0 = time.time()
    with open(out_path, "w") as out:
        p = subprocess.run(cmd, stdout=out, stderr=subprocess.STDOUT, cwd=SPECS, env=e)
    res.wall = time.time() - t0
    res.rc = p.returncode
    res.out_path = out_path
    shutil.rmtree(meta, ignore_errors=True)
    tail = []
    with open(out_path, errors="replace") as f:
        for line in f:
            if line.startswith('"'):
                continue
            tail.append(line)
            if len(tail) > 400:
                tail.pop(0)
            m = re.match(r"(\d+) states generated, (\d+) distinct states found", line)
            if m:
                res.generated, res.distinct = int(m.group(1)), int(m.group(2))
            m = re.match(r"The depth of the complete state graph search is (\d+)", line)
            if m:
                res.depth = int(m.group(1))
            m = re.match(r"Error: Invariant (\S+) is violated", line)
            if m:
                res.violated = m.group(1)
            m = re.match(r"Error: Action property (\S+) is violated", line)
            if m:
                res.violated = m.group(1)
            m = re.match(r"The number of states generated: (\d+)", line)
            if m:
                res.generated = int(m.group(1))
    res.error_text = "".join(tail[-60:])
    if res.rc == 124:
        raise Broken("TLC timed out after %ds (%s)" % (timeout, name))
    if res.rc not in (0, 12):
        raise Broken("TLC failed rc=%s on %s:\n%s" % (res.rc, name, res.error_text))
    return res


def emitted(out_path):
    """JSON records printed by PrintT(ToJson(..)) in a TLC run (escaped strings, one per line)"""
    with open(out_path, errors="replace") as f:
        for line in f:
            if line.startswith('"{') or line.startswith('"['):
                try:
                    yield json.loads(json.loads(line))
                except ValueError:
                    continue


def sany(module):
    p = subprocess.run(["java", "-cp", TLC_CP, "tla2sany.SANY", os.path.join(SPECS, module + ".tla")],
                       stdout=subprocess.PIPE, stderr=subprocess.STDOUT, cwd=SPECS, text=True)
    ok = p.returncode == 0 and "*** Errors" not in p.stdout and "Fatal" not in p.stdout and "Could not parse" not in p.stdout
    return ok, p.stdout


# ------------------------------------------------------------------------------ C++ build
def compile_cpp(src, out, flags=(), libs=(), std="c++17", opt="-O1", timeout=900):
    cmd = ["timeout", str(timeout), CXX, "-std=" + std, opt, "-w", "-I" + os.path.join(REPO, "include"),
           "-I" + HARNESS] + list(flags) + [src, "-o", out] + list(libs)
    p = subprocess.run(cmd, stdout=subprocess.PIPE, stderr=subprocess.STDOUT, text=True)
    return p.returncode == 0, p.stdout


def compile_many(jobs):
    """jobs: list of (src, out, flags, libs); compiled in parallel; returns list of (ok, text)"""
    from concurrent.futures import ThreadPoolExecutor
    with ThreadPoolExecutor(max_workers=NPROC) as ex:
        futs = [ex.submit(compile_cpp, j[0], j[1], j[2] if len(j) > 2 else (), j[3] if len(j) > 3 else ()) for j in jobs]
        return [f.result() for f in futs]


def run_replayer_chunks(exe, lines, wd, tag, nchunks=NPROC, timeout=900, env=None, args=(), args_fn=None):
    """Feed program lines ("P <id> ...") to the replayer in parallel chunks.  A crash (library
    assertion, signal) is attributed to the program announced last on stderr ("@id"); the
    remaining programs of the chunk are re-run.  Returns (obs_by_id, crashes) where crashes is
    a list of dicts {id, signal, stderr}."""
    from concurrent.futures import ThreadPoolExecutor
    chunks = [lines[i::nchunks] for i in range(nchunks)]
    chunks = [c for c in chunks if c]

    def work(ci):
        todo = chunks[ci]
        obs, crashes = {}, []
        rounds = 0
        while todo:
            rounds += 1
            inp = "".join(todo)
            a = list(args_fn(ci, rounds)) if args_fn else list(args)
            p = subprocess.run(["timeout", str(timeout), exe] + a, input=inp.encode(), stdout=subprocess.PIPE,
                               stderr=subprocess.PIPE, env=env)
            for ol in p.stdout.decode(errors="replace").splitlines():
                try:
                    o = json.loads(ol)
                    obs[o["id"]] = o
                except ValueError:
                    pass
            if p.returncode == 0:
                break
            err = p.stderr.decode(errors="replace")
            marks = re.findall(r"^@(-?\d+)$", err, re.M)
            if marks:
                last = int(marks[-1])
            else:
                # died without announcing (e.g. corrupted stack): output is flushed per program, so the
                # first program of this round without an observation is the one that was running
                last = None
                for l in todo:
                    pid_ = int(l.split()[1])
                    if pid_ not in obs:
                        last = pid_
                        break
                if last is None:
                    crashes.append({"id": None, "rc": p.returncode, "stderr": err[-2000:]})
                    break
            msg = "\n".join(l for l in err.splitlines() if not l.startswith("@"))[-1500:]
            crashes.append({"id": last, "rc": p.returncode, "stderr": msg})
            # drop everything up to and including the crashing program
            idx = None
            for k, l in enumerate(todo):
                if int(l.split()[1]) == last:
                    idx = k
                    break
            if idx is None:
                break
            todo = todo[idx + 1:]
            if rounds > 2000:
                break
        return obs, crashes

    allobs, allcr = {}, []
    with ThreadPoolExecutor(max_workers=len(chunks) or 1) as ex:
        for obs, cr in ex.map(work, range(len(chunks))):
            allobs.update(obs)
            allcr.extend(cr)
    return allobs, allcr


# ------------------------------------------------------------------------ known findings
class Findings:
    """/verif/known_findings.txt: lines
         open: property=<id> match=<json object> <what fails>
         fixed: property=<id> <commit> <what failed>
       An open entry matches a violation when every key of its match object equals the same
       key of the violation's signature.  Fixed entries suppress nothing."""

    def __init__(self, path=None):
        self.path = path or os.path.join(VERIF, "known_findings.txt")
        self.open = []
        if os.path.exists(self.path):
            for line in open(self.path):
                line = line.strip()
                m = re.match(r"open:\s+property=(\S+)\s+match=(\{.*?\})\s+(.*)$", line)
                if m:
                    try:
                        self.open.append({"prop": m.group(1), "match": json.loads(m.group(2)), "what": m.group(3)})
                    except ValueError:
                        pass

    def match(self, prop, sig):
        for e in self.open:
            if e["prop"] != prop:
                continue
            if all(str(sig.get(k)) == str(v) for k, v in e["match"].items()):
                return e
        return None


# ------------------------------------------------------------------------------ reporting
class Report:
    def __init__(self, prop, tier):
        self.prop = prop
        self.tier = tier
        self.t0 = time.time()
        if os.path.isdir(REPLAYS):      # replay files of earlier runs of this property are stale
            for f in os.listdir(REPLAYS):
                if f.startswith(prop + "-"):
                    try:
                        os.remove(os.path.join(REPLAYS, f))
                    except OSError:
                        pass
        self.violations = []      # (sig, detail)
        self.known = {}           # what -> count
        self.findings = Findings()
        self.cov = {"evaluations": 0, "distinct_nontrivial": 0, "samples": [], "states": 0, "transitions": 0,
                    "traces_validated_against_impl": 0}
        self.assumptions = []
        self.notes = {}
        self.drift = []

    def violation(self, sig, detail):
        """sig: small dict identifying the failing call site / input class; detail: the replay record"""
        e = self.findings.match(self.prop, sig)
        if e is not None:
            self.known[e["what"]] = self.known.get(e["what"], 0) + 1
            return False
        self.violations.append((sig, detail))
        return True

    def add_tlc(self, res):
        self.cov["states"] += res.distinct
        self.cov["transitions"] += res.generated

    def finish(self, level="model_checking", rule="", exhaustive=False, extra=None):
        os.makedirs(EVIDENCE, exist_ok=True)
        os.makedirs(REPLAYS, exist_ok=True)
        printed = 0
        seen = set()
        for sig, detail in self.violations:
            key = json.dumps(sig, sort_keys=True)
            if key in seen:
                continue
            seen.add(key)
            if printed >= int(os.environ.get("VERIF_MAXPRINT", "20")):
                continue
            h = hashlib.sha1(json.dumps(detail, sort_keys=True, default=str).encode()).hexdigest()[:12]
            path = os.path.join(REPLAYS, "%s-%s.json" % (self.prop, h))
            with open(path, "w") as f:
                json.dump({"property": self.prop, "sig": sig, "detail": detail}, f, indent=1, default=str)
            print("VIOLATION property=%s replay=%s" % (self.prop, path))
            log("  signature:", key)
            printed += 1
        for what, n in self.known.items():
            print("KNOWN-FINDING: property=%s %s (%d occurrences)" % (self.prop, what, n))
        cov = dict(self.cov)
        cov["rule"] = rule
        cov["exhaustive"] = bool(exhaustive)
        cov["samples"] = cov["samples"][:5]
        if extra:
            cov.update(extra)
        cov["model_drift"] = self.drift[:20]
        cov["known_findings_matched"] = self.known
        ev = {"property_id": self.prop, "tier": self.tier, "seed": seed(), "level": level, "coverage": cov,
              "assumptions": self.assumptions, "wall_s": round(time.time() - self.t0, 2),
              "violations": len(seen)}
        ev.update(self.notes)
        os.makedirs(BUILD, exist_ok=True)
        with open(os.path.join(BUILD, "last_signatures_%s.json" % self.prop), "w") as f:
            json.dump([json.loads(k) for k in seen], f)
        with open(os.path.join(EVIDENCE, self.prop + ".json"), "w") as f:
            json.dump(ev, f, indent=1, default=str)
        return 1 if self.violations else 0


# --------------------------------------------------------------------- trace validation (V)
def validate_traces(module, spec, trace_files, name, postcondition="Consumed", timeout=1200, heap="3g"):
    """run the TLA+ trace monitor `module` over each trace file (one JVM per file, in parallel);
    returns (complaints, states): complaints = list of dicts printed by the monitor"""
    from concurrent.futures import ThreadPoolExecutor
    wd = os.path.join(BUILD, name)
    os.makedirs(wd, exist_ok=True)
    cfg = os.path.join(wd, name + ".cfg")
    write_cfg(cfg, spec=spec, postcondition=postcondition)

    def one(k):
        tf = trace_files[k]
        if not os.path.exists(tf):
            return [], 0
        # a traced process that died (the crash is reported separately, against the program it was running)
        # can leave a last line cut short; the monitor judges the complete lines
        with open(tf) as fh:
            ls = fh.readlines()
        keep = []
        for ln in ls:
            if not ln.endswith("\n"):
                break
            try:
                json.loads(ln)
            except ValueError:
                break
            keep.append(ln)
        if len(keep) != len(ls):
            with open(tf, "w") as fh:
                fh.writelines(keep)
        if os.path.getsize(tf) == 0:
            return [], 0
        r = run_tlc(module, cfg, "%s_%d" % (name, k), workers=1, timeout=timeout, env={"TRACE": tf}, heap=heap)
        if r.rc != 0:
            raise Broken("trace monitor failed on %s: %s" % (tf, r.error_text[-1500:]))
        comp = list(emitted(r.out_path))
        os.remove(r.out_path)
        return comp, r.distinct
    comps, states = [], 0
    with ThreadPoolExecutor(max_workers=NPROC) as ex:
        for c, n in ex.map(one, range(len(trace_files))):
            comps.extend(c)
            states += n
    return comps, states
