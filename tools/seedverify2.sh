#!/bin/bash
# usage: tools/seedverify.sh <ID> <n> [extra link flags]  -- confirm a seeded change in its scratch worktree /tmp/seed/<ID>:
#   demo passes on the unchanged library, the 78 tests pass with the patch, the demo fails with the patch.
# On success copies patch.diff, demo.cpp, NOTES.md to /verif/seeded/<ID>-<n>/ and writes verify.json there.
set -u
ID="$1"; N="$2"; shift 2; LINK="$*"
W=${SEEDROOT:-/tmp/seed}/$ID; S=$W/_seed/$N
cd "$W" || exit 2
git checkout -- include 2>/dev/null
${SEEDCXX:-g++} -std=c++17 -O1 -w -I$W/include $S/demo.cpp -o /tmp/seed/demo_${ID}_${N} $LINK 2>/tmp/seed/demo_${ID}_${N}.err || { echo "demo does not compile on clean tree"; tail -5 /tmp/seed/demo_${ID}_${N}.err; exit 2; }
timeout 120 /tmp/seed/demo_${ID}_${N} >/dev/null 2>&1; clean_rc=$?
git apply "$S/patch.diff" || { echo "patch does not apply"; exit 2; }
if [ ! -d _build ]; then cmake -G Ninja -S . -B _build -DCMAKE_BUILD_TYPE=RelWithDebInfo -DCMAKE_CXX_FLAGS=-Wno-error -DCMAKE_COMPILE_WARNING_AS_ERROR=OFF >/dev/null 2>&1; fi
cmake --build _build -j16 >/tmp/seed/build_${ID}_${N}.log 2>&1; build_rc=$?
tests=$(OMPI_ALLOW_RUN_AS_ROOT=1 OMPI_ALLOW_RUN_AS_ROOT_CONFIRM=1 ctest --test-dir _build -j8 --timeout 900 2>&1 | grep "tests passed")
${SEEDCXX:-g++} -std=c++17 -O1 -w -I$W/include $S/demo.cpp -o /tmp/seed/demo_${ID}_${N} $LINK 2>/dev/null; timeout 120 /tmp/seed/demo_${ID}_${N} >/dev/null 2>&1; mut_rc=$?
git checkout -- include
rm -f /tmp/seed/demo_${ID}_${N} /tmp/seed/demo_${ID}_${N}.err
echo "$ID-$N: clean demo rc=$clean_rc; build rc=$build_rc; $tests; mutated demo rc=$mut_rc"
if [ "$clean_rc" = 0 ] && [ "$build_rc" = 0 ] && [ "$mut_rc" != 0 ] && echo "$tests" | grep -q "100% tests passed, 0 tests failed out of 78"; then
  D=/verif/seeded/$ID-${SEEDTAG:-}$N; mkdir -p $D; cp $S/patch.diff $S/demo.cpp $D/; [ -f $S/NOTES.md ] && cp $S/NOTES.md $D/
  printf '{"confirmed":true,"clean_demo_rc":%s,"mutated_demo_rc":%s,"tests":"%s","link":"%s"}\n' "$clean_rc" "$mut_rc" "$tests" "$LINK" > $D/verify.json
  echo CONFIRMED
else echo REJECTED; fi
