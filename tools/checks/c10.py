"""C10 -- storage stays with the allocator that produced it; propagation follows the traits."""
import itertools
import os
from concurrent.futures import ThreadPoolExecutor

import vlib
from checks import arrays
from checks.c04 import consts
from checks.c08 import complaints_to_violations

OPS = ["ctor_iota_al", "ctor_copy", "ctor_copy_al", "ctor_move", "ctor_move_al", "assign_copy", "assign_move", "swap", "reextent",
       "reextent_fill", "clear", "destroy", "write"]


def run(tier):
    rep = vlib.Report("C10", tier)
    wd = vlib.workdir("c10")
    combos = list(itertools.product([False, True], repeat=4))        # POCCA, POCMA, POCS, AlwaysEqual
    def tag(c):
        return "".join("1" if b else "0" for b in c)

    def build(c):
        fl = ["-DVERIF_POCCA=%s" % str(c[0]).lower(), "-DVERIF_POCMA=%s" % str(c[1]).lower(), "-DVERIF_POCS=%s" % str(c[2]).lower(),
              "-DVERIF_AE=%s" % str(c[3]).lower()]
        return arrays.build(wd, 2, name="replay_arrays_trk_" + tag(c), extra_flags=fl)
    with ThreadPoolExecutor(max_workers=vlib.NPROC) as ex:
        exes = dict(zip(combos, ex.map(build, combos)))
    depth = 3 if tier == "quick" else 4
    ext = 1 if tier == "quick" else 2
    events = 0
    for c in combos:
        name = "c10_" + tag(c)
        k = consts(1, ext, depth, False, OPS)
        k.update({"AllocIds": {1, 2, 3}, "POCCA": c[0], "POCMA": c[1], "POCS": c[2], "AlwaysEq": c[3]})
        traces = arrays.run_config(rep, "C10", name, k, exes[c], wd, 2, trace=True, check_alloc=True,
                                   sig_extra={"traits": tag(c)})
        # the event traces of one configuration are validated together (fewer JVM starts)
        merged = os.path.join(wd, name + "_all.ndjson")
        with open(merged, "w") as out:
            for t in traces:
                with open(t) as f:
                    out.write(f.read())
                os.remove(t)
        comps, states = vlib.validate_traces("Lifecycle", "MSpec", [merged], name + "_mon")
        events += states
        rep.cov["states"] += states
        rep.cov["transitions"] += states
        complaints_to_violations(rep, comps, None, {"traits": tag(c)})
        os.remove(merged)
    # assignments that build a temporary array inside the library (from views, iterator ranges, initializer lists, arrays of
    # another allocator type): two-dimensional, so that a source of the same element count but another shape exists
    extra_ops = ["ctor_iota_al", "assign_view", "assign_range", "assign_il", "assign_other", "assign_copy", "assign_move", "reextent", "write", "destroy"]
    # (not with propagate_on_container_move_assignment: the library move-assigns its temporary, which then carries the
    #  temporary's default-constructed allocator into the array; the property says when copy/move assignment and swap replace
    #  the allocator and is silent about assignment from a view, so that allocator is not demanded)
    for c in [cc for cc in combos if tag(cc) in ("0000", "1000", "0010")]:
        name = "c10_tmp_" + tag(c)
        k = consts(2, 2, 3, False, extra_ops)
        k.update({"AllocIds": {1, 3}, "POCCA": c[0], "POCMA": c[1], "POCS": c[2], "AlwaysEq": c[3]})
        traces = arrays.run_config(rep, "C10", name, k, exes[c], wd, 2, trace=True, check_alloc=True, sig_extra={"traits": tag(c), "part": "temporaries"})
        comps, states = vlib.validate_traces("Lifecycle", "MSpec", traces, name + "_mon")
        events += states
        rep.cov["states"] += states
        rep.cov["transitions"] += states
        complaints_to_violations(rep, comps, None, {"traits": tag(c), "part": "temporaries"})
        for t in traces:
            os.remove(t)
    # reextent that shrinks / grows a non-empty array (extents up to 2) while move assignment propagates: the array must keep
    # the allocator it was given (reextent is not a move assignment)
    for c in [cc for cc in combos if tag(cc) in ("0100", "0110", "1100")]:
        name = "c10_reext_" + tag(c)
        k = consts(1, 2, 2, False, ["ctor_iota_al", "reextent", "reextent_fill", "reextent_move", "clear", "write"])
        k.update({"AllocIds": {1, 3}, "POCCA": c[0], "POCMA": c[1], "POCS": c[2], "AlwaysEq": c[3]})
        traces = arrays.run_config(rep, "C10", name, k, exes[c], wd, 2, trace=True, check_alloc=True, sig_extra={"traits": tag(c), "part": "reextent"})
        comps, states = vlib.validate_traces("Lifecycle", "MSpec", traces, name + "_mon")
        events += states
        rep.cov["states"] += states
        rep.cov["transitions"] += states
        complaints_to_violations(rep, comps, None, {"traits": tag(c), "part": "reextent"})
        for t in traces:
            os.remove(t)
    # failures while allocators propagate or differ: every injection point of the last operation (as C09 does for equal allocators)
    fault_ops = ["ctor_iota_al", "ctor_copy_al", "ctor_move_al", "assign_copy", "assign_move", "assign_view", "reextent", "reextent_fill"]
    faulted = 0
    for c in [cc for cc in combos if tag(cc) in ("0000", "1000", "0100", "1100")]:
        name = "c10_faults_" + tag(c)
        k = consts(1, 2, 3, False, fault_ops)
        k.update({"AllocIds": {1, 3}, "POCCA": c[0], "POCMA": c[1], "POCS": c[2], "AlwaysEq": c[3]})
        traces = arrays.run_config(rep, "C10", name, k, exes[c], wd, 2, trace=True, faults=True, judge_values=False, sig_extra={"traits": tag(c), "part": "faults"})
        obs = rep.notes.get("_last_obs", {})
        faulted += sum(int(o.get("points_last", 0)) for o in obs.values() if isinstance(o, dict))
        comps, states = vlib.validate_traces("Lifecycle", "MSpec", traces, name + "_mon")
        events += states
        rep.cov["states"] += states
        rep.cov["transitions"] += states
        complaints_to_violations(rep, comps, rep.notes.get("_last_exps"), {"traits": tag(c), "part": "faults"})
        for t in traces:
            try:
                os.remove(t)
            except OSError:
                pass
    rep.notes["faulted_runs"] = faulted
    rep.notes["events_validated"] = events
    rep.notes["configurations"] = [tag(c) for c in combos]
    rep.assumptions = ["allocator instances 1 and 2 compare equal, 3 is unequal to both; select_on_container_copy_construction(a) is a "
                       "distinguishable instance of the same class", "swap of unequal non-propagating allocators is excluded (undefined, as for std containers)"]
    return arrays.finish(rep, "for each of the 16 combinations of propagate_on_container_{copy_assignment,move_assignment,swap} and is_always_equal: "
                         "every history of ArrayOps.tla over allocator-naming constructors, copy/move construction and assignment, "
                         "allocator-extended copy/move, swap, reextent; the allocator instance of every array is compared with the "
                         "specification and every event is validated by Lifecycle.tla (blocks returned through an equal allocator, "
                         "each array's block made by an allocator equal to its get_allocator())", True)
