"""Index-extension algebra (specs/Extensions.tla): range / extension_t / extensions_t<D>.  Run as a part of C19
(index bases) -- the algebra decides which indices are valid and what two extensions have in common."""
import json
import os

import vlib

FIELDS = ["ne", "sizes", "from_linear", "next", "prev", "inter_sizes", "eq", "contains", "r_size", "r_empty", "r_seq", "r_find"]


def xline(pid, rec):
    parts = ["X", str(pid), str(rec["D"])]
    for r in rec["x"]:
        parts += [str(r["f"]), str(r["n"])]
    for r in rec["y"]:
        parts += [str(r["f"]), str(r["n"])]
    parts.append(str(len(rec["probes"])))
    for p in rec["probes"]:
        parts += [str(v) for v in p]
    return " ".join(parts) + "\n"


def run_part(rep, tier, prop="C19"):
    wd = vlib.workdir("extensions")
    exe = os.path.join(wd, "replay_extensions")
    ok, text = vlib.compile_cpp(os.path.join(vlib.HARNESS, "replay_extensions.cpp"), exe)
    if not ok:
        raise vlib.Broken("replay_extensions.cpp does not compile:\n" + text[-3000:])
    plan = [("ext_d1", {"XD": 1, "XFirsts": vlib.Sub("XFirstsMixed"), "XMaxN": 4, "YFirsts": vlib.Sub("YFirstsMixed"), "YSizes": {0, 1, 3}, "XEmit": True}),
            ("ext_d2", {"XD": 2, "XFirsts": vlib.Sub("XFirstsMixed"), "XMaxN": 3, "YFirsts": vlib.Sub("YFirstsMixed"), "YSizes": {0, 2}, "XEmit": True}),
            ("ext_d3", {"XD": 3, "XFirsts": vlib.Sub("XFirstsMixed"), "XMaxN": 2, "YFirsts": {0, 1}, "YSizes": {2}, "XEmit": True})]
    if tier == "thorough":
        plan.append(("ext_d2_wide", {"XD": 2, "XFirsts": vlib.Sub("XFirstsMixed"), "XMaxN": 4, "YFirsts": vlib.Sub("YFirstsMixed"), "YSizes": {0, 1, 3}, "XEmit": True}))
    total = agree = 0
    for name, c in plan:
        cfg = os.path.join(wd, name + ".cfg")
        vlib.write_cfg(cfg, spec="XSpec", constants=c, invariants=["InterCommutes", "InterWithin", "InterIdem", "LinearBijection"], constraints=["XEmitC"])
        res = vlib.run_tlc("Extensions", cfg, name)
        rep.add_tlc(res)
        if res.violated:
            rep.violation({"kind": "design", "part": "extensions", "invariant": res.violated}, {"tlc": res.error_text})
            continue
        exps, seen = [], set()
        for rec in vlib.emitted(res.out_path):     # every state is printed for the initial state and for its stuttering successor
            k = json.dumps([rec["x"], rec["y"]], sort_keys=True)
            if k not in seen:
                seen.add(k)
                exps.append(rec)
        os.remove(res.out_path)
        lines = [xline(k, r) for k, r in enumerate(exps)]
        obs, crashes = vlib.run_replayer_chunks(exe, lines, wd, name)
        crashed = {cr["id"] for cr in crashes if cr["id"] is not None}
        for pid, exp in enumerate(exps):
            total += 1
            o = obs.get(pid)
            sig0 = {"part": "extensions", "D": exp["D"]}
            if pid in crashed or o is None:
                rep.violation(dict(sig0, kind="crash"), {"case": exp})
                continue
            if "abort" in o:
                # from_linear on extensions with an empty inner range divides by zero: positions of an element-free range are not demanded
                rep.violation(dict(sig0, kind="abort", line=o["abort"].get("line")), {"case": {"x": exp["x"], "y": exp["y"]}, "observed": o})
                continue
            bad = []
            for f in FIELDS:
                if o.get(f) != exp[f]:
                    bad.append((f, exp[f], o.get(f)))
            # the firsts of an intersection are demanded only where it has indices
            for d, n in enumerate(exp["inter_sizes"]):
                if n > 0 and o.get("inter_firsts", [None] * 9)[d] != exp["inter_firsts"][d]:
                    bad.append(("inter_firsts", exp["inter_firsts"], o.get("inter_firsts")))
                    break
            if o.get("inter_sizes_rev") != exp["inter_sizes"]:
                bad.append(("intersection_not_commutative", exp["inter_sizes"], o.get("inter_sizes_rev")))
            if o.get("to_linear") != list(range(exp["ne"])):
                bad.append(("to_linear", list(range(exp["ne"])), o.get("to_linear")))
            if o.get("ne_op") != 1 - exp["eq"]:
                bad.append(("!=", 1 - exp["eq"], o.get("ne_op")))
            if o.get("r_index") != exp["r_seq"] or o.get("r_rseq") != list(reversed(exp["r_seq"])):
                bad.append(("range_index_or_reverse", exp["r_seq"], [o.get("r_index"), o.get("r_rseq")]))
            if exp["r_seq"] and (o.get("r_front") != exp["r_seq"][0] or o.get("r_back") != exp["r_seq"][-1]):
                bad.append(("front_back", [exp["r_seq"][0], exp["r_seq"][-1]], [o.get("r_front"), o.get("r_back")]))
            if bad:
                rep.violation(dict(sig0, kind="mismatch", field=bad[0][0]), {"case": {"x": exp["x"], "y": exp["y"]}, "mismatches": bad[:3]})
            else:
                agree += 1
        vlib.log("%s extensions %s: %d operand pairs, TLC %d states" % (prop, name, len(exps), res.distinct))
    rep.cov["evaluations"] += total
    rep.cov["traces_validated_against_impl"] += agree
    rep.cov.setdefault("parts", {})["extensions"] = {"pairs": total, "agree": agree}
    return total, agree
