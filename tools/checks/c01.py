"""C01 -- view algebra."""
import os

import vlib
from checks import views


def constants(tier):
    c = {"MaxD": 3, "MaxExt": 3, "MaxDepth": 2, "MaxDim": 5, "Bases": {0}, "OpNames": set(views.ALL_OPS),
         "ParenArgs": 3, "ParenLean": True, "OneDimQuirk": False, "Emit": True}
    if tier == "thorough":
        c.update({"MaxDepth": 3, "ParenLean": True})
    return c


def run(tier):
    rep = vlib.Report("C01", tier)
    wd = vlib.workdir("c01")
    exe, text = views.build_replayer(wd)
    if exe is None:
        views.report_build_failure(rep, wd, text, "replay_views.cpp")
        return rep.finish(rule="the replayer does not build: one translation unit per (operation, receiver value category, dimensionality, "
                          "array/view) names what stopped compiling", exhaustive=False)
    runs = [("c01_main", constants(tier))]
    if tier == "thorough":
        # full call-syntax argument enumeration at depth 2, and 4-dimensional roots at depth 2
        c2 = constants("quick"); c2.update({"ParenLean": False})
        runs.append(("c01_parenfull", c2))
        c3 = constants("quick"); c3.update({"MaxD": 4, "MaxExt": 2, "ParenArgs": 4})
        runs.append(("c01_d4", c3))
    else:
        c2 = constants("quick"); c2.update({"ParenLean": False, "MaxDepth": 1, "MaxD": 3})
        runs.append(("c01_parenfull1", c2))
    # receiver value categories: every operation reached through its const& and && overloads as well
    cr = constants("quick"); cr.update({"MaxExt": 2, "Recvs": vlib.Sub("RecvsCR")})
    if tier == "thorough":
        cr.update({"MaxExt": 3})
    runs.append(("c01_recv", cr))
    # the first operation on the owning array itself, through every receiver category (an array is not just a view of itself)
    ca = constants("quick"); ca.update({"MaxExt": 2, "MaxDepth": 1, "Recvs": vlib.Sub("RecvsAll"), "Ons": vlib.Sub("OnsArray")})
    if tier == "thorough":
        ca.update({"MaxExt": 3, "MaxDepth": 2})
    runs.append(("c01_on_array", ca))
    # the call syntax with four arguments (every mix of index / range / all) on 4-dimensional roots
    cp = constants("quick"); cp.update({"MaxD": 4, "MaxExt": 2, "MaxDepth": 1, "ParenArgs": 4, "ParenLean": False, "OpNames": {"paren"}, "MaxDim": 5})
    runs.append(("c01_paren4", cp))
    # four-dimensional roots under every composition of up to three dimension permutations, all access paths
    c4 = constants("quick"); c4.update({"MaxD": 4, "MaxExt": 2, "MaxDepth": 3, "OpNames": {"rotated", "unrotated", "transposed"}})
    runs.append(("c01_d4_perm", c4))
    exhaustive = True
    sims = {}
    # beyond the exhaustive bound: random programs over larger extents (sizes up to 6, which are not all multiples of each other,
    # D <= 4), TLC -simulate seeded by VERIF_SEED
    cl = constants("quick"); cl.update({"MaxD": 4, "MaxExt": 6, "MaxDepth": 3, "ParenLean": True})
    runs.append(("c01_large_random", cl))
    sims["c01_large_random"] = {"simulate": 4 if tier == "quick" else 12, "depth": 4, "workers": 8}
    if tier == "thorough":
        # deep random programs on larger roots (TLC -simulate, seeded by VERIF_SEED): beyond the exhaustive bound
        c4 = constants("quick"); c4.update({"MaxD": 4, "MaxExt": 5, "MaxDepth": 8, "ParenLean": True})
        runs.append(("c01_deep_random", c4))
        sims["c01_deep_random"] = {"simulate": 30, "depth": 9, "workers": 8}   # num is per worker; every candidate successor of every visited state is a program
    for name, c in runs:
        res = views.generate(name, c, rep, **sims.get(name, {}))
        if res.violated:
            # design-level counterexample: the code-shaped model or the requirement is wrong
            rep.violation({"kind": "design", "invariant": res.violated}, {"tlc": res.error_text})
            continue
        n, nok, _, _ = views.replay_and_compare(rep, "C01", res, exe, wd, check_first=True, label=name)
        vlib.log("C01 %s: TLC %d generated / %d distinct; %d programs replayed, %d agree" % (name, res.generated, res.distinct, n, nok))
        try:
            os.remove(res.out_path)
        except OSError:
            pass
    missing = [o for o in views.ALL_OPS if rep.cov.get("per_last_op", {}).get(o, 0) == 0]
    if missing:
        raise vlib.Broken("operations never exercised: %s" % missing)
    rep.assumptions = ["TLC explores ViewAlgebra.tla exhaustively within the constants of each run",
                       "harness/replay_views.cpp projects the real view faithfully (cell = address - data_elements())",
                       "g++ -O1, assertions enabled"]
    return rep.finish(rule="every transition of ViewAlgebra.tla (roots D<=MaxD, extents 0..MaxExt, all enabled "
                      "operations with all in-domain arguments, programs of length <= MaxDepth) is one program; "
                      "non-trivial = at least one layout-changing operation and a resulting view of >= 2 elements; "
                      "distinct = distinct (root, program)", exhaustive=exhaustive,
                      extra={"runs": [{"name": n, "constants": {k: (sorted(v) if isinstance(v, set) else repr(v) if isinstance(v, vlib.Sub) else v) for k, v in c.items()}} for n, c in runs]})
