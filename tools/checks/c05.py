"""C05 -- assignment through views is deep and writes exactly the viewed elements."""
import json
import os

import vlib
from checks import views

KINDS = ["assign_array", "assign_rotview", "assign_padview", "assign_constview", "assign_other", "assign_range", "assign_il", "fill",
         "std_fill_elements", "elements_assign", "swap", "assign_moved_view", "assign_rvalue_rotview", "assign_innerT",
         "assign_rvalue_innerT", "swap_same_layout", "assign_interleaved", "assign_rdest_array", "assign_rdest_rotview", "assign_rdest_rvalue_rotview"]
# kinds re-run with an element type whose moves are observable (a moved-from element reads -2): a view is a reference-like
# handle, so assigning from an rvalue VIEW must still copy and leave the source elements as they were
TRK_KINDS = ["assign_array", "assign_rotview", "assign_constview", "elements_assign", "assign_rvalue_rotview", "assign_innerT",
             "assign_rvalue_innerT", "swap", "swap_same_layout"]
OPS = [o for o in views.ALL_OPS if o != "broadcast"]


def consts(D, ext, depth, kinds, lean=True):
    return {"MaxD": D, "MaxExt": ext, "MaxDepth": depth, "MaxDim": 5, "Bases": vlib.Sub("BasesZero"), "OpNames": set(OPS),
            "ParenArgs": 3, "ParenLean": lean, "OneDimQuirk": False, "Emit": True, "AKinds": set(kinds)}


def aline(pid, rec):
    base = views.program_line(pid, rec).split()
    return " ".join(["A"] + base[1:] + [rec["kind"]]) + "\n"


def run(tier):
    rep = vlib.Report("C05", tier)
    wd = vlib.workdir("c05")
    exe = os.path.join(wd, "replay_assign")
    exe_trk = os.path.join(wd, "replay_assign_trk")
    res = vlib.compile_many([(os.path.join(vlib.HARNESS, "replay_assign.cpp"), exe, []),
                             (os.path.join(vlib.HARNESS, "replay_assign.cpp"), exe_trk, ["-DVERIF_TRACKED_ELEM"])])
    for ok, text in res:
        if not ok:
            raise vlib.Broken("replay_assign.cpp does not compile:\n" + text[-3000:])
    # four-dimensional roots under every composition of up to three dimension permutations
    perm4 = consts(4, 2, 3, ["assign_array", "assign_rotview", "assign_constview", "elements_assign", "assign_rvalue_rotview", "assign_interleaved", "fill", "swap"])
    perm4["OpNames"] = {"rotated", "unrotated", "transposed"}
    # rows, columns and strided lines of 5 to 7 elements (longer than any unrolling factor), source and destination of other strides
    longrows = consts(2, 7, 2, ["assign_array", "assign_rotview", "assign_rvalue_rotview", "assign_rdest_array", "assign_rdest_rotview",
                                "assign_rdest_rvalue_rotview", "assign_interleaved", "elements_assign", "swap"])
    longrows["OpNames"] = {"index", "rotated", "strided", "reversed", "front"}
    plan = [("c05_d3", consts(3, 2, 2, KINDS), exe), ("c05_d2", consts(2, 3, 2, KINDS), exe),
            ("c05_move_from", consts(3, 2, 1, ["move_from"]), exe_trk), ("c05_trk", consts(3, 2, 1, TRK_KINDS), exe_trk),
            ("c05_d4_perm", perm4, exe), ("c05_long_rows", longrows, exe)]
    if tier == "thorough":
        plan += [("c05_d3_e3", consts(3, 3, 2, KINDS), exe), ("c05_d4", consts(4, 2, 2, KINDS), exe),
                 ("c05_move_from2", consts(3, 2, 2, ["move_from"]), exe_trk), ("c05_trk2", consts(3, 2, 2, TRK_KINDS), exe_trk)]
    nontrivial = set()
    per_kind = rep.cov.setdefault("per_kind", {})
    for name, c, ex in plan:
        cfg = os.path.join(wd, name + ".cfg")
        vlib.write_cfg(cfg, spec="WSpec", constants=c, invariants=["WInjective", "InBounds"], view="WVW", constraints=["WEmitC"])
        res = vlib.run_tlc("ViewAssign", cfg, name)
        rep.add_tlc(res)
        if res.violated:
            rep.violation({"kind": "design", "invariant": res.violated}, {"tlc": res.error_text})
            continue
        exps, lines, seen = [], [], set()
        for rec in vlib.emitted(res.out_path):
            k = json.dumps([rec["root"], rec["path"], rec["kind"]], sort_keys=True)
            if k in seen:
                continue
            seen.add(k)
            exps.append(rec)
            lines.append(aline(len(exps) - 1, rec))
        obs, crashes = vlib.run_replayer_chunks(ex, lines, wd, name)
        for cr in crashes:
            if cr["id"] is None:
                raise vlib.Broken("replayer failed: " + cr["stderr"][-800:])
        crashed = {cr["id"]: cr for cr in crashes}
        nok = unsup = 0
        for pid, exp in enumerate(exps):
            o = obs.get(pid)
            vop = "+".join(p["op"] for p in exp["path"]) or "root"
            sig0 = {"akind": exp["kind"], "view": vop, "Dv": len(exp["shape"])}
            if pid in crashed:
                rep.violation(dict(sig0, kind="crash"), {"case": exp, "crash": crashed[pid]})
                continue
            if o is None:
                rep.violation(dict(sig0, kind="missing"), {"case": exp})
                continue
            if o.get("st") == "unsupported":
                unsup += 1
                rep.notes.setdefault("unsupported", {}).setdefault(o.get("why"), 0)
                rep.notes["unsupported"][o.get("why")] += 1
                continue
            per_kind[exp["kind"]] = per_kind.get(exp["kind"], 0) + 1
            if o.get("st") == "abort":
                rep.violation(dict(sig0, kind="abort", line=o["abort"].get("line")), {"case": exp, "observed": o})
                continue
            bad = []
            if o.get("store") != exp["store"]:
                # which part failed: an exact value, or the frame
                viewed = set(exp["cells"])
                frame = any(o["store"][c] != exp["store"][c] for c in range(len(exp["store"])) if c not in viewed) if o.get("store") and len(o["store"]) == len(exp["store"]) else True
                bad.append(("frame" if frame else "exact", exp["store"], o.get("store")))
            if o.get("news", 0) != 0:
                # an assignment through a view took memory from the heap ("never ... reallocates anything")
                bad.append(("assignment_through_view_allocated", 0, o.get("news")))
            if o.get("guards_ok") is not True:
                bad.append(("wrote_outside_root", True, o.get("guards_ok")))
            if o.get("twin_frame_ok") is not True:
                bad.append(("wrote_outside_the_other_view", True, o.get("twin_frame_ok")))
            if o.get("root_ok") is not True:
                bad.append(("root_rebound_or_resized", True, o.get("root_ok")))
            if exp["kind"] != "move_from" and o.get("src") != exp["src"]:
                bad.append(("source_after", exp["src"], o.get("src")))
            if exp["kind"] == "move_from" and o.get("sink") != exp["cells"]:
                bad.append(("moved_values", exp["cells"], o.get("sink")))
            if bad:
                rep.violation(dict(sig0, kind="mismatch", field=bad[0][0]), {"case": exp, "observed": o, "mismatches": bad[:3]})
            else:
                nok += 1
                if len(exp["cells"]) >= 2 and exp["path"]:
                    nontrivial.add(json.dumps([exp["root"], exp["path"], exp["kind"]], sort_keys=True))
        rep.cov["evaluations"] += len(exps)
        rep.cov["traces_validated_against_impl"] += nok
        if len(rep.cov["samples"]) < 3 and exps:
            pid = len(exps) // 2
            rep.cov["samples"].append({"case": exps[pid], "observed": obs.get(pid)})
        vlib.log("C05 %s: TLC %d generated / %d distinct; %d cases, %d agree, %d unsupported" % (name, res.generated, res.distinct, len(exps), nok, unsup))
        os.remove(res.out_path)
    rep.cov["distinct_nontrivial"] = len(nontrivial)
    missing = [k for k in KINDS + ["move_from"] if per_kind.get(k, 0) == 0]
    if missing:
        raise vlib.Broken("assignment kinds never exercised: %s" % missing)
    rep.assumptions = ["the destination root is an array_ref into a harness buffer with 8 guard cells on each side",
                       "sources have the destination view's extents; swap uses the rvalue-view form the library provides"]
    return rep.finish(rule="every view of ViewAlgebra.tla (depth <= 2) x every assignment kind; the prescribed store (Exact + Frame) is "
                      "compared with the whole buffer; non-trivial = derived view of >= 2 elements", exhaustive=True)
