"""C19 -- index bases are transparent."""
import json
import os

import vlib
from checks import views

OPS19 = views.ALL_OPS + ["reindexed", "blocked", "stenciled"]
EXPLICIT_BASE_OPS = {"root", "reindexed", "blocked", "stenciled"}


def constants(tier, variant):
    c = {"MaxD": 2, "MaxExt": 3, "MaxDepth": 2, "MaxDim": 5, "Bases": vlib.Sub("BasesMixed"), "OpNames": set(OPS19),
         "ParenArgs": 3, "ParenLean": True, "OneDimQuirk": False, "Emit": True}
    if variant == "d3":
        c.update({"MaxD": 3, "MaxExt": 2, "MaxDepth": 1})
        if tier == "thorough":
            c.update({"MaxDepth": 2, "Bases": vlib.Sub("BasesTwo")})
    if variant == "recv":    # the const& and && overloads of every operation, on re-based roots
        c.update({"MaxExt": 2, "MaxDepth": 2, "Recvs": vlib.Sub("RecvsCR")})
    if tier == "thorough" and variant == "main":
        c.update({"MaxDepth": 3, "MaxExt": 2})
    return c


def run(tier):
    rep = vlib.Report("C19", tier)
    wd = vlib.workdir("c19")
    exe, text = views.build_replayer(wd)
    if exe is None:
        raise vlib.Broken("replay_views.cpp does not compile:\n" + text[-3000:])
    for variant in ("main", "d3", "recv"):
        name = "c19_" + variant
        cfg = os.path.join(wd, name + ".cfg")
        c = constants(tier, variant)
        # Refines: the code-shaped model (MultiLayout, as fixed) designates the prescribed elements for re-based roots too
        vlib.write_cfg(cfg, constants=c, invariants=["Refines", "InBounds", "Affine", "TypeOK"], view="VW", constraints=["EmitC"])
        res = vlib.run_tlc("ViewAlgebra", cfg, name)
        rep.add_tlc(res)
        if res.violated:
            rep.violation({"kind": "design", "invariant": res.violated}, {"tlc": res.error_text})
            continue
        run_one(rep, res, exe, wd, name)
        os.remove(res.out_path)
    # owning arrays with index bases: copying, assignment, reextent by index extensions, equality of values
    from checks import arrays
    from checks.c04 import consts as aconsts
    exe_int = arrays.build(wd, 0)
    aops = ["ctor_ext", "ctor_iota", "ctor_copy", "ctor_move", "ctor_view", "decay", "assign_copy", "assign_move", "assign_view", "swap", "ctor_other", "ctor_other_x", "assign_other",
            "write", "destroy", "reextent", "reextent_fill", "clear", "reshape"]
    aplan = [("c19_arr_d1", aconsts(1, 2, 3, True, aops)), ("c19_arr_d2", aconsts(2, 2, 2, True, aops))]
    if tier == "thorough":
        core = ["ctor_iota", "ctor_copy", "ctor_view", "assign_copy", "assign_view", "assign_other", "swap", "reextent", "reextent_fill", "write"]
        aplan += [("c19_arr_d2_deep", aconsts(2, 2, 3, True, core)), ("c19_arr_d3", aconsts(3, 1, 2, True, core))]
    for name, c in aplan:
        c["ABases"] = vlib.Sub("ABasesMixed" if c["DimD"] == 1 or (tier == "thorough" and name == "c19_arr_d2") else "ABasesTwo")
        arrays.run_config(rep, "C19", name, c, exe_int, wd, len(c["Slots"]), check_first=True, sig_extra={"part": "arrays"})
    rep.notes.pop("_nontrivial", None); rep.notes.pop("_last_exps", None); rep.notes.pop("_last_obs", None)
    # the index-extension algebra itself (Extensions.tla): valid indices, canonical order, intersection
    from checks import extensions
    nx, ax = extensions.run_part(rep, tier)
    vlib.log("C19 extensions: %d operand pairs, %d agree" % (nx, ax))
    rep.assumptions = ["index bases of derived views are taken from the code-shaped model only to form in-domain "
                       "arguments; a program whose prefix shows a different base in the real library is skipped, "
                       "not judged", "explicit bases (construction from index extensions, reindexed, blocked) are demanded"]
    return rep.finish(rule="every transition of ViewAlgebra.tla over roots with index bases in {-1,0,2} per dimension; "
                      "non-trivial = re-based root, >= 1 layout-changing operation, result of >= 2 elements",
                      exhaustive=True)


def run_one(rep, res, exe, wd, label):
    exps, lines = [], []
    for rec in vlib.emitted(res.out_path):
        exps.append(rec)
        lines.append(views.program_line(len(exps) - 1, rec))
    obs, crashes = vlib.run_replayer_chunks(exe, lines, wd, label)
    crashed = {c["id"]: c for c in crashes if c["id"] is not None}
    for c in crashes:
        if c["id"] is None:
            raise vlib.Broken("replayer failed: " + c["stderr"][-500:])
    key = lambda root, path: json.dumps([root, path], sort_keys=True)
    # pass 1: programs whose observed index bases differ from the model's (drift of derived bases)
    base_drift = set()
    for pid, exp in enumerate(exps):
        o = obs.get(pid)
        if o and o.get("st") == "ok" and exp["ne"] > 0 and o.get("D", 0) > 0 and o.get("ext") is not None:
            if [e[0] for e in o["ext"]] != exp["first"]:
                base_drift.add(key(exp["root"], exp["path"]))
    nok = skipped = 0
    nontrivial = set()
    per_op = rep.cov.setdefault("per_last_op", {})
    for pid, exp in enumerate(exps):
        path = exp["path"]
        lastop = path[-1]["op"] if path else "root"
        rebased = any(f != 0 for f in exp["root"]["first"])
        if any(key(exp["root"], path[:k]) in base_drift for k in range(len(path))):
            skipped += 1
            continue
        per_op[lastop] = per_op.get(lastop, 0) + 1
        if pid in crashed:
            rep.violation({"kind": "abort", "op": lastop, "D": len(exp["root"]["shape"]), "rebased": rebased,
                           "prev": path[-2]["op"] if len(path) > 1 else "root"},
                          {"program": exp, "crash": crashed[pid]})
            continue
        o = obs.get(pid)
        if o and o.get("st") == "unsupported":
            skipped += 1
            continue
        bad = views.compare(exp, o, check_first=lastop in EXPLICIT_BASE_OPS)
        if bad:
            rep.violation({"kind": "mismatch", "op": lastop, "field": bad[0][0], "D": len(exp["root"]["shape"]), "rebased": rebased,
                           "prev": path[-2]["op"] if len(path) > 1 else "root"},
                          {"program": exp, "observed": o, "mismatches": bad[:4]})
        else:
            nok += 1
            if rebased and exp["ne"] >= 2 and path:
                nontrivial.add(key(exp["root"], path))
    rep.cov["evaluations"] += len(exps)
    rep.cov["traces_validated_against_impl"] += nok
    rep.cov["distinct_nontrivial"] += len(nontrivial)
    rep.notes["skipped_base_drift_or_unsupported"] = rep.notes.get("skipped_base_drift_or_unsupported", 0) + skipped
    rep.notes["derived_base_drift_programs"] = rep.notes.get("derived_base_drift_programs", 0) + len(base_drift)
    if len(rep.cov["samples"]) < 3 and exps:
        pid = len(exps) // 2
        rep.cov["samples"].append({"root": exps[pid]["root"], "program": exps[pid]["path"],
                                   "prescribed": {k: exps[pid][k] for k in ("shape", "first", "cells")}, "observed": obs.get(pid)})
    vlib.log("C19 %s: %d programs, %d agree, %d skipped, %d base-drift" % (label, len(exps), nok, skipped, len(base_drift)))
