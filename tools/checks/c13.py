"""C13 -- the BLAS adaptor gives the mathematical result for every accepted view combination.

specs/BlasGen.tla enumerates the case lattice (operation x calling form x element type x per-operand layout
variant x sizes x scalars); harness/replay_blas.cpp executes every case on the real library and records
observations; specs/Blas.tla (trace monitor) gives the verdict on every record.  This file is plumbing only."""
import collections
import json
import os
import time
from concurrent.futures import ThreadPoolExecutor

import vlib

OPS = ["gemm", "gemv", "dot", "axpy", "scal", "copy", "swap", "asum", "nrm2", "iamax", "herk", "syrk", "trsm", "view"]
REC_OPS = ["gemm", "gemv", "dot", "axpy", "scal", "copy", "swap", "asum", "nrm2", "iamax", "herk", "syrk", "trsm", "viewm", "viewv"]
ELT = {"s": "float", "d": "double", "c": "std::complex<float>", "z": "std::complex<double>"}
FEATURES = ["TRSM_CC", "DOT_CC", "ASUM_CONV_VIEW", "ASUM_DECAY_VIEW", "ASUM_CONV_ARR", "ASUM_DECAY_ARR", "IAMAX_CALL", "GEMM_SOPER", "SWAP_OPER",
            "HERK_NOBETA", "HERK_BOTH", "HERK_BOTH1", "HERK_RET", "HERK_RET1"]
GROUP = {"gemm": 1, "gemv": 2, "dot": 4, "axpy": 8, "scal": 16, "copy": 16, "swap": 16, "asum": 32, "nrm2": 32, "iamax": 32,
         "herk": 64, "syrk": 128, "trsm": 256, "viewm": 512, "viewv": 512}
MAT_OPS = {"gemm", "gemv", "herk", "syrk", "trsm", "viewm"}
KEYS = ["op", "form", "ty", "ta", "pa", "tb", "pb", "tc", "pc", "sx", "sy", "cx", "cy", "m", "n", "k", "alpha", "beta", "side", "fill", "diag"]


def case_line(pid, rec, seed):
    parts = ["B", str(pid), str(seed)]
    for k in KEYS:
        v = rec[k]
        if isinstance(v, list):
            v = "%d,%d" % (v[0], v[1])
        parts.append("%s=%s" % (k, v))
    return " ".join(parts) + "\n"


def szc(v):
    return "0" if v == 0 else "1" if v == 1 else "+"


# coarse symptom class: the library computed / wrote something wrong, or it refused a combination it documents as supported
KIND = {"math": "wrong", "inexact": "wrong", "frame": "wrong", "crash": "wrong", "missing": "wrong", "rejected-supported": "rejected"}


def laycode(o):
    """which stride of each matrix operand is 1, as the library sees the views: e.g. A01B10C01 (observed, not prescribed)"""
    out = ""
    for name, key in (("A", "A_st"), ("B", "B_st"), ("B", "B0_st"), ("C", "C0_st")):
        st = (o or {}).get(key)
        if st is not None:
            out += name + ("1" if st[0] == 1 else "0") + ("1" if st[1] == 1 else "0")
    return out


def signature(rec, verdict, st, o=None):
    """what failed, where: operation, form, element type, operand layout classes, size class"""
    op = rec["op"]
    sig = {"op": op, "form": rec["form"], "ty": rec["ty"], "tyc": "complex" if rec["ty"] in ("c", "z") else "real", "what": verdict,
           "kind": KIND.get(verdict, verdict), "st": st}
    if op in MAT_OPS:
        sig["lay"] = laycode(o)
        sig["conj"] = "".join(n for n, k in (("A", "ta"), ("B", "tb"), ("C", "tc")) if rec[k] in ("J", "H") and rec["ty"] in ("c", "z"))
    if op in MAT_OPS:
        for k in ("ta", "pa", "tb", "pb", "tc", "pc"):
            if rec[k] != "-":
                sig[k] = rec[k]
    if op in ("gemv", "dot", "axpy", "scal", "copy", "swap", "asum", "nrm2", "iamax", "viewv"):
        for k in ("sx", "sy"):
            if rec[k] != "-":
                sig[k] = rec[k]
        if op in ("dot", "viewv"):
            sig["cx"], sig["cy"] = rec["cx"], rec["cy"]
    if op in ("herk", "syrk", "trsm"):
        sig["fill"] = rec["fill"]
    if op == "trsm":
        sig["side"], sig["diag"] = rec["side"], rec["diag"]
    if op == "gemm":
        sig["size"] = "m%sn%sk%s" % (szc(rec["m"]), szc(rec["n"]), szc(rec["k"]))
    elif op in ("gemv",):
        sig["size"] = "m%sk%s" % (szc(rec["m"]), szc(rec["k"]))
    elif op in ("herk", "syrk"):
        sig["size"] = "n%sk%s" % (szc(rec["n"]), szc(rec["k"]))
    elif op in ("trsm", "viewm"):
        sig["size"] = "m%sn%s" % (szc(rec["m"]), szc(rec["n"]))
    else:
        sig["size"] = "n%s" % szc(rec["n"])
    return sig


def run(tier):
    rep = vlib.Report("C13", tier)
    wd = vlib.workdir("c13")
    types = ["s", "d", "c", "z"]
    # quick: the single-precision types run the vector operations only (their matrix operations are in the thorough tier)
    light_ops = {"dot", "asum", "nrm2", "iamax", "axpy", "scal", "copy", "swap"}
    light_types = {"s", "c"} if tier == "quick" else set()
    seed = vlib.seed()
    src = os.path.join(vlib.HARNESS, "replay_blas.cpp")
    probe = os.path.join(vlib.HARNESS, "replay_blas_probe.cpp")

    # ---- 1. the generator (TLC) runs while the probes are compiled
    gcfg = os.path.join(wd, "gen.cfg")
    vlib.write_cfg(gcfg, spec="Spec", constants={"Types": set(types), "Tier": tier, "OpSel": set(OPS)}, constraints=["EmitC"])
    pool = ThreadPoolExecutor(max_workers=2)
    gen_f = pool.submit(vlib.run_tlc, "BlasGen", gcfg, "c13_gen", 8)

    # ---- 2. which call forms compile for which element type (observation: exit status of the compiler)
    pjobs = [(probe, "/dev/null", ["-fsyntax-only", "-DELT=" + ELT[t], "-DPROBE_" + f]) for t in types for f in FEATURES]
    pres = vlib.compile_many(pjobs)
    feats = {t: [] for t in types}
    k = 0
    for t in types:
        for f in FEATURES:
            if pres[k][0]:
                feats[t].append(f)
            k += 1
    rep.notes["forms_that_compile"] = feats
    # sanity: a probe that fails for a reason other than the form (e.g. missing header) would fail for every feature
    for t in types:
        if not feats[t]:
            raise vlib.Broken("no probe compiles for element type %s:\n%s" % (t, pres[0][1][-1500:]))

    # ---- 3. one replayer per element type and operation group; a group that does not compile for an element type is an
    #         observation ("nocompile"), judged like any other rejection by Blas.tla
    groups = sorted(set(GROUP.values()))
    light_groups = {GROUP[o] for o in light_ops}
    exes = {(t, g): os.path.join(wd, "replay_blas_%s_%d" % (t, g)) for t in types for g in groups if t not in light_types or g in light_groups}
    keys = sorted(exes)
    jobs = [(src, exes[k2], ["-DC13_ELT=" + ELT[k2[0]], "-DC13_OPS=%d" % k2[1]] + ["-DC13_F_" + f for f in feats[k2[0]]], ["-lopenblas"]) for k2 in keys]
    cres = vlib.compile_many(jobs)
    built, notbuilt = set(), {}
    for k2, (ok, text) in zip(keys, cres):
        if ok:
            built.add(k2)
        else:
            errs = [l for l in text.splitlines() if "error" in l]
            notbuilt["%s/%d" % k2] = (errs[0] if errs else text[-300:])[:400]
    rep.notes["groups_that_do_not_compile"] = notbuilt
    for t in types:
        if sum(1 for g in groups if (t, g) in built) < len([g for g in groups if (t, g) in exes]) - 2:
            raise vlib.Broken("replay_blas.cpp does not compile for %s: %s" % (t, notbuilt))

    res = gen_f.result()
    rep.add_tlc(res)
    cases, seen = [], set()
    for rec in vlib.emitted(res.out_path):
        key = json.dumps(rec, sort_keys=True)
        if key in seen:
            continue
        seen.add(key)
        if rec["ty"] in light_types and rec["op"] not in light_ops:
            continue
        cases.append(rec)
    cases.sort(key=lambda r: json.dumps(r, sort_keys=True))   # TLC's output order depends on worker scheduling; case ids (and data seeds) must not
    os.remove(res.out_path)
    if len(cases) < 20000:
        raise vlib.Broken("generator produced only %d cases" % len(cases))
    vlib.log("C13: %d cases generated by BlasGen.tla in %.0fs; forms that compile: %s; groups that do not: %s" % (len(cases), res.wall, feats, list(notbuilt)))

    # ---- 4. execute
    env = dict(os.environ, OPENBLAS_NUM_THREADS="1", OMP_NUM_THREADS="1")
    lines = {k2: [] for k2 in keys}
    obs, crashes = {}, []
    for pid, rec in enumerate(cases):
        k2 = (rec["ty"], GROUP[rec["op"]])
        if k2 in built:
            lines[k2].append(case_line(pid, rec, seed))
        else:   # the whole operation does not compile for this element type
            o = {kk: rec[kk] for kk in KEYS}
            o.update({"id": pid, "st": "nocompile", "why": "operation group does not compile", "inexact": 0, "heap": 0,
                      "outcells": [], "chgout": [], "chgin": []})
            obs[pid] = o
    t0 = time.time()
    todo = [k2 for k2 in keys if lines[k2]]

    def runty(k2):
        return vlib.run_replayer_chunks(exes[k2], lines[k2], wd, "c13_%s_%d" % k2, nchunks=min(vlib.NPROC, max(1, len(lines[k2]) // 1500)), env=env)
    with ThreadPoolExecutor(max_workers=vlib.NPROC) as ex:
        for o, cr in ex.map(runty, todo):
            obs.update(o)
            crashes.extend(cr)
    for cr in crashes:
        if cr["id"] is None:
            raise vlib.Broken("replayer failed: " + cr["stderr"][-800:])
    crashed = {cr["id"]: cr for cr in crashes}
    vlib.log("C13: replayed in %.0fs, %d process deaths" % (time.time() - t0, len(crashes)))

    # ---- 5. the monitor
    nchunks = vlib.NPROC
    tfiles = [os.path.join(wd, "trace_%d.ndjson" % k) for k in range(nchunks)]
    outs = [open(t, "w") for t in tfiles]
    ntr = 0
    status = collections.Counter()
    for pid, rec in enumerate(cases):
        o = obs.get(pid)
        if o is None:
            if pid in crashed:
                rep.violation(signature(rec, "crash", "died"), {"case": rec, "crash": crashed[pid]})
            else:
                rep.violation(signature(rec, "missing", "none"), {"case": rec})
            continue
        if o["st"] == "unsupported":
            raise vlib.Broken("replayer cannot build case %s: %s" % (rec, o.get("why")))
        status[(rec["op"], o["st"])] += 1
        outs[ntr % nchunks].write(json.dumps(o) + "\n")
        ntr += 1
    for f in outs:
        f.close()
    t0 = time.time()
    comps, states = vlib.validate_traces("Blas", "Spec", tfiles, "c13_mon")
    vlib.log("C13: %d records judged by Blas.tla in %.0fs" % (ntr, time.time() - t0))
    rep.cov["states"] += states
    rep.cov["transitions"] += states
    verdict = {cpl["id"]: cpl["verdict"] for cpl in comps}

    # ---- 6. verdicts -> violations, coverage
    clog = open(os.path.join(wd, "complaints.ndjson"), "w")   # every complaint, for the maintainer of the check
    per = collections.defaultdict(collections.Counter)   # (op, form, ty) -> verdict counts
    variants = collections.defaultdict(collections.Counter)
    nontrivial = 0
    for pid, rec in enumerate(cases):
        o = obs.get(pid)
        if o is None:
            continue
        v = verdict.get(pid, "good")
        per[(rec["op"], rec["form"], rec["ty"])][v] += 1
        if v == "good":
            for kx in ("ta", "tb", "tc", "pa", "pb", "pc", "sx", "sy", "cx", "cy"):
                if rec[kx] != "-":
                    variants[rec["op"]]["%s=%s" % (kx, rec[kx])] += 1
            if max(rec["m"], rec["n"], rec["k"]) >= 2:
                nontrivial += 1
        if v in ("good", "rejected", "malformed"):
            continue
        detail = {"case": rec, "seed": seed, "observed": o, "verdict": v}
        if pid in crashed:
            detail["crash"] = crashed[pid]
        clog.write(json.dumps({"sig": signature(rec, v, o["st"], o), "case": rec, "observed": o}) + "\n")
        rep.violation(signature(rec, v, o["st"], o), detail)
    clog.close()
    rep.cov["evaluations"] = len(cases)
    rep.cov["traces_validated_against_impl"] = ntr
    rep.cov["distinct_nontrivial"] = nontrivial
    rep.cov["per_operation_form_type"] = {"%s/%s/%s" % k2: dict(v2) for k2, v2 in sorted(per.items())}
    rep.cov["variants_with_good_verdict"] = {k2: dict(v2) for k2, v2 in sorted(variants.items())}
    rep.cov["status_by_operation"] = {"%s:%s" % k2: v2 for k2, v2 in sorted(status.items())}
    if len(rep.cov["samples"]) < 3 and cases:
        for pid in (len(cases) // 3, len(cases) // 2):
            rep.cov["samples"].append({"case": cases[pid], "observed": obs.get(pid), "verdict": verdict.get(pid, "good")})

    # ---- 7. no vacuity: every operation, for every element type, computed something the monitor accepted
    good_by = collections.Counter()
    for (op, form, ty), cnt in per.items():
        good_by[(op, ty)] += cnt["good"]
    missing = [(op, ty) for op in REC_OPS for ty in types if good_by[(op, ty)] == 0 and (ty, GROUP[op]) in built and not (ty in light_types and op not in light_ops)]
    if missing:
        raise vlib.Broken("operations never validated (no good verdict): %s" % missing)
    for op, want in (("gemm", ["ta=N", "ta=T", "ta=H", "tb=N", "tb=T", "tb=H", "tc=N", "tc=T", "pa=c", "pa=p", "pc=p"]),
                     ("gemv", ["ta=N", "ta=T", "ta=J", "sx=u", "sx=s2", "sx=col", "sy=s2"]),
                     ("trsm", ["ta=N", "ta=T", "ta=H", "tb=N", "tb=T", "tb=H", "pa=p", "pb=p"]),
                     ("herk", ["ta=N", "ta=H", "tc=N", "pc=p"]), ("syrk", ["ta=N", "ta=T", "tc=N", "tc=T"]),
                     ("dot", ["cx=C", "cy=C", "sx=s2", "sy=col"]), ("axpy", ["sx=s2", "sy=col"]), ("copy", ["sx=col", "sy=s2"])):
        lack = [w for w in want if variants[op][w] == 0]
        if lack:
            raise vlib.Broken("%s: layout variants never validated: %s" % (op, lack))
    for t in tfiles:
        os.remove(t)
    rep.assumptions = [
        "data: integers in [-3,3] (Gaussian integers for complex types) drawn from VERIF_SEED; trsm uses diagonals from {1,-1,2,i,-i} and "
        "right-hand sides that are multiples of 16, so every intermediate of a correct evaluation is an exact floating point number",
        "operand values are read through the very views handed to the library (blas::N/T/J/H, blas::C), whose own meaning is checked by the "
        "viewm/viewv records against OpMat of Blas.tla",
        "a rejection (exception, assertion, form does not compile) is a violation only for combinations the README's table of features "
        "lists as supported (Listed in Blas.tla); negative vector strides and aliased operands are not generated",
        "compile-time rejection is observed by compiling harness/replay_blas_probe.cpp per form and element type",
    ]
    return rep.finish(level="model_checking",
                      rule="BlasGen.tla enumerates operation x form x element type x operand layout variants x sizes x scalars; every case is "
                           "executed once on pseudo-random integer data; Blas.tla checks result = mathematical definition, frame (inputs, guard "
                           "cells, heap pads unchanged) and that rejections hit only combinations not listed as supported; non-trivial = some size >= 2",
                      exhaustive=False)
