"""C18 -- MPI messages built from a view denote exactly its elements in canonical order."""
import json
import os
import subprocess

import vlib
from checks import views


def run(tier):
    rep = vlib.Report("C18", tier)
    wd = vlib.workdir("c18")
    exe = os.path.join(wd, "replay_mpi")
    cmd = ["mpicxx", "-std=c++20", "-O1", "-w", "-I" + os.path.join(vlib.REPO, "include"), "-I" + vlib.HARNESS,
           os.path.join(vlib.HARNESS, "replay_mpi.cpp"), "-o", exe]
    p = subprocess.run(cmd, stdout=subprocess.PIPE, stderr=subprocess.STDOUT, text=True)
    if p.returncode != 0:
        raise vlib.Broken("replay_mpi.cpp does not compile:\n" + p.stdout[-3000:])
    env = dict(os.environ, OMPI_ALLOW_RUN_AS_ROOT="1", OMPI_ALLOW_RUN_AS_ROOT_CONFIRM="1", OMPI_MCA_btl_vader_single_copy_mechanism="none")
    vc = {"MaxD": 3, "MaxExt": 3 if tier == "quick" else 3, "MaxDepth": 2, "MaxDim": 4, "Bases": vlib.Sub("BasesZero"),
          "OpNames": set(o for o in views.ALL_OPS if o != "broadcast"), "ParenArgs": 3, "ParenLean": True, "OneDimQuirk": False, "Emit": True}
    plan = [("c18_d3", dict(vc, MaxExt=2)), ("c18_d2", dict(vc, MaxD=2))]
    if tier == "thorough":
        plan = [("c18_d3", dict(vc, MaxDepth=2)), ("c18_d4", dict(vc, MaxD=4, MaxExt=2, MaxDepth=1))]
    nontrivial = set()
    for name, c in plan:
        res = views.generate(name, c, rep)
        exps, seen = [], set()
        for r in vlib.emitted(res.out_path):
            if len(r["shape"]) < 1:
                continue
            k = json.dumps([r["root"], r["path"]], sort_keys=True)
            if k in seen:
                continue
            seen.add(k)
            exps.append(r)
        os.remove(res.out_path)
        lines = ["M " + " ".join(views.program_line(k, r).split()[1:]) + " " + json.dumps(r["cells"], separators=(",", ":")) + "\n" for k, r in enumerate(exps)]
        traces = []

        def args_fn(ci, rnd):
            tf = os.path.join(wd, "%s_trace_%d_%d.ndjson" % (name, ci, rnd))
            traces.append(tf)
            return [tf]
        obs, crashes = vlib.run_replayer_chunks(exe, lines, wd, name, env=env, args_fn=args_fn)
        crashed = {cr["id"]: cr for cr in crashes if cr["id"] is not None}
        for cr in crashes:
            if cr["id"] is None:
                raise vlib.Broken("MPI replayer failed: " + cr["stderr"][-800:])
        comps, states = vlib.validate_traces("MpiTypes", "TSpec", traces, name + "_mon")
        rep.cov["states"] += states
        rep.cov["transitions"] += states
        badseg = {}
        for cpl in comps:
            badseg.setdefault(cpl["seg"], cpl)
        nok = 0
        for pid, rec in enumerate(exps):
            o = obs.get(pid)
            vop = "+".join(p_["op"] for p_ in rec["path"]) or "root"
            sig0 = {"view": vop, "Dv": len(rec["shape"])}
            if pid in crashed or o is None:
                rep.violation(dict(sig0, kind="crash"), {"case": rec, "crash": crashed.get(pid)})
                continue
            if o.get("st") == "unsupported":
                continue
            if o.get("st") != "ok":
                rep.violation(dict(sig0, kind=o.get("st"), line=(o.get("abort") or {}).get("line")), {"case": rec, "observed": o})
                continue
            bad = []
            if pid in badseg:
                bad.append((badseg[pid]["bad"], None, badseg[pid]))
            want = [1000 + c_ for c_ in rec["cells"]]
            if o.get("packed") != want:
                bad.append(("packed_elements", want, o.get("packed")))
            if o.get("packed_bytes") != 4 * len(want):
                bad.append(("packed_size", 4 * len(want), o.get("packed_bytes")))
            if o.get("unpacked") != want:
                bad.append(("unpacked_into_other_layout", want, o.get("unpacked")))
            if o.get("untouched") != o.get("backing_ne", 0) - len(want):
                bad.append(("unpack_touched_other_elements", o.get("backing_ne", 0) - len(want), o.get("untouched")))
            n = 1
            for s in rec["root"]["shape"]:
                n *= s
            if o.get("root") != [1000 + c_ for c_ in range(n)]:
                bad.append(("packing_changed_the_source", None, o.get("root")))
            if bad:
                rep.violation(dict(sig0, kind="mismatch", field=bad[0][0]), {"case": rec, "observed": o, "mismatches": bad[:3]})
            else:
                nok += 1
                if rec["ne"] >= 2 and rec["path"]:
                    nontrivial.add(json.dumps([rec["root"], rec["path"]]))
        rep.cov["evaluations"] += len(exps)
        rep.cov["traces_validated_against_impl"] += nok
        if len(rep.cov["samples"]) < 2 and exps:
            rep.cov["samples"].append({"case": exps[len(exps) // 2], "observed": obs.get(len(exps) // 2)})
        vlib.log("C18 %s: %d views, %d agree; %d datatype events validated by MpiTypes.tla, %d complaints" % (name, len(exps), nok, states, len(comps)))
        for t in traces:
            try:
                os.remove(t)
            except OSError:
                pass
    rep.cov["distinct_nontrivial"] = len(nontrivial)
    rep.assumptions = ["one process, singleton MPI_Init (OpenMPI); MPI_Pack/MPI_Unpack on MPI_COMM_SELF stand for send/receive",
                       "element type int (4 bytes); the PMPI profiling interface reports every datatype constructor/commit/free call"]
    return rep.finish(rule="every ViewAlgebra view (roots D<=3, programs <= 2 operations): mpi::message(view.elements()) is built; the recorded "
                      "datatype constructor calls are validated by MpiTypes.tla (type map = canonical cells x 4 bytes, committed before use, "
                      "every created handle freed exactly once); MPI_Pack output and MPI_Unpack into a rotated-layout view are compared with "
                      "the prescribed element sequence; non-trivial = derived view of >= 2 elements", exhaustive=True)
