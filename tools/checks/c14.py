"""C14 -- LAPACK adaptor: potrf / geqrf / gesvd reconstruct their input for every accepted view and
overwrite only their documented outputs.

LapackGen.tla enumerates the case lattice (routine x orientation x padding x sizes x triangle x planted
pivot x element type); harness/replay_lapack.cpp runs every case on the real library (one binary per
routine: potrf.hpp and geqrf.hpp cannot share a translation unit) and logs whole buffers before/after;
Lapack.tla validates every record.  Python only moves data around: it draws paddings and data seeds from
VERIF_SEED, merges the generator's case descriptor into the observed record and turns the monitor's
complaints into VIOLATION lines."""
import json
import os
import random

import vlib

ROUTINES = ["potrf", "geqrf", "gesvd"]
HARNESS_VERDICTS = {"desc", "harness_layout", "data", "unknown_routine"}   # defects of the check, never of the library


def desc(orient, pad, m, n, G, rng):
    """operand descriptor [orient, pad, R, C, r0, c0, m, n, G] (validated again by Lapack!DescOK)"""
    br, bc = (m, n) if orient == "row" else (n, m)
    if pad == 0:
        return {"orient": orient, "pad": 0, "R": br, "C": bc, "r0": 0, "c0": 0, "m": m, "n": n, "G": G}
    r0, c0, er, ec = rng.randint(0, 2), rng.randint(0, 2), rng.randint(0, 2), rng.randint(0, 2)
    if r0 + c0 + er + ec == 0:
        ec = 1
    return {"orient": orient, "pad": 1, "R": r0 + br + er, "C": c0 + bc + ec, "r0": r0, "c0": c0, "m": m, "n": n, "G": G}


def dline(d):
    return "%s %d %d %d %d %d %d %d %d" % (d["orient"], d["pad"], d["R"], d["C"], d["r0"], d["c0"], d["m"], d["n"], d["G"])


def concrete(case, k, idx, G):
    """the generator's case + seed-derived paddings and data seed"""
    sd = (vlib.seed() * 1000003 + k * 7919 + idx * 31 + 17) & 0x7FFFFFFF
    rng = random.Random(sd)
    m, n = case["m"], case["n"]
    c = dict(case)
    c["seed"] = sd
    if case["form"] == "copy":
        c["A"] = desc("row", 0, m, n, 0, rng)
        c["U"] = desc("row", 0, m, m, 0, rng)
        c["V"] = desc("row", 0, n, n, 0, rng)
    else:
        c["A"] = desc(case["orient"], case["pad"], m, n, G, rng)
        c["U"] = desc(case["uvor"], case["uvpad"], m, m, 8, rng)
        c["V"] = desc(case["uvor"], case["uvpad"], n, n, 8, rng)
    return c


def pline(pid, c):
    return "P %d %s %s %s %d %s %d %s %s %s\n" % (pid, c["rt"], c["dt"], c["uplo"], c["plant"], c["form"], c["seed"],
                                                  dline(c["A"]), dline(c["U"]), dline(c["V"]))


def shape(c):
    return "square" if c["m"] == c["n"] else ("wide" if c["m"] < c["n"] else "tall")


def sig_of(c, kind):
    s = {"routine": c["rt"], "kind": kind, "dt": c["dt"], "orient": c["orient"], "pad": c["pad"], "shape": shape(c)}
    if c["rt"] == "potrf":
        s["uplo"] = c["uplo"]
        s["planted"] = c["plant"] >= 0
    if c["rt"] == "gesvd":
        s["form"] = c["form"]
        s["uv"] = "%s%d" % (c["uvor"], c["uvpad"])
    return s


def klass(c):
    k = "%s/%s/%s%d" % (c["rt"], c["dt"], c["orient"], c["pad"])
    if c["rt"] == "potrf":
        k += "/" + c["uplo"] + ("/planted" if c["plant"] >= 0 else "/posdef")
    if c["rt"] == "gesvd":
        k += "/%s/uv=%s%d" % (c["form"], c["uvor"], c["uvpad"])
    return k


def build(wd):
    """one replayer per routine + the syev probe, in parallel"""
    src = os.path.join(vlib.HARNESS, "replay_lapack.cpp")
    probe = os.path.join(wd, "probe_syev.cpp")
    with open(probe, "w") as f:
        f.write("#include <boost/multi/adaptors/lapack/syev.hpp>\nint main() { return 0; }\n")
    libs = ["-llapack", "-lopenblas"]
    jobs = [(src, os.path.join(wd, "replay_lapack_" + r), ["-DRT_" + r.upper()], libs) for r in ROUTINES]
    jobs.append((probe, os.path.join(wd, "probe_syev"), [], libs))
    res = vlib.compile_many(jobs)
    for r, (ok, text) in zip(ROUTINES, res[:3]):
        if not ok:
            raise vlib.Broken("replay_lapack.cpp (-DRT_%s) does not compile:\n%s" % (r.upper(), text[-3000:]))
    return {r: j[1] for r, j in zip(ROUTINES, jobs)}, res[3]


def generate(wd, maxn, types, rep):
    cfg = os.path.join(wd, "c14_gen.cfg")
    vlib.write_cfg(cfg, spec="GSpec", constants={"MaxN": maxn, "PotrfTypes": set(types), "BigSizes": {66}}, constraints=["GEmitC"])
    res = vlib.run_tlc("LapackGen", cfg, "c14_gen", workers=4)
    rep.add_tlc(res)
    cases, seen = [], set()
    for rec in vlib.emitted(res.out_path):
        k = json.dumps(rec, sort_keys=True)
        if k not in seen:
            seen.add(k)
            cases.append(rec)
    os.remove(res.out_path)
    if len(cases) != res.distinct:
        raise vlib.Broken("generator: %d cases printed, %d distinct states" % (len(cases), res.distinct))
    cases.sort(key=lambda r: json.dumps(r, sort_keys=True))
    return cases


def execute(exes, conc, wd, tag):
    """run the concrete cases; returns (records by id, crashes by id)"""
    env = dict(os.environ, OPENBLAS_NUM_THREADS="1", OMP_NUM_THREADS="1")
    obs, crashed, unattributed = {}, {}, []
    for r in ROUTINES:
        lines = [pline(pid, c) for pid, c in enumerate(conc) if c["rt"] == r]
        if not lines:
            continue
        o, crashes = vlib.run_replayer_chunks(exes[r], lines, wd, tag + "_" + r, env=env)
        for cr in crashes:
            if cr["id"] is None:       # died after every case had reported (e.g. heap damage noticed at exit): cannot be attributed to one case
                if not o:
                    raise vlib.Broken("replayer %s failed: %s" % (r, cr["stderr"][-800:]))
                unattributed.append(dict(cr, routine=r))
                continue
            crashed[cr["id"]] = cr
        obs.update(o)
    return obs, crashed, unattributed


def validate(conc, obs, wd, name, nfiles):
    tfiles = [os.path.join(wd, "%s_trace_%d.ndjson" % (name, k)) for k in range(nfiles)]
    outs = [open(t, "w") for t in tfiles]
    n = 0
    for pid, c in enumerate(conc):
        o = obs.get(pid)
        if o is None or o.get("st") == "unsupported":
            continue
        rec = {k: v for k, v in o.items() if k not in ("rej", "xerbla")}      # diagnostics only (and TLC's Json has no null)
        for key in ("rt", "dt", "uplo", "plant", "form", "A", "U", "V"):     # the descriptor comes from the generator, not from the code
            rec[key] = c[key]
        outs[n % nfiles].write(json.dumps(rec) + "\n")
        n += 1
    for f in outs:
        f.close()
    comps, states = vlib.validate_traces("Lapack", "MSpec", tfiles, name)
    for t in tfiles:
        os.remove(t)
    return comps, states, n


def run(tier):
    rep = vlib.Report("C14", tier)
    wd = vlib.workdir("c14")
    exes, (syev_ok, syev_text) = build(wd)
    if not syev_ok:
        first = [ln for ln in syev_text.splitlines() if "error" in ln][:3]
        rep.violation({"routine": "syev", "kind": "does_not_compile"}, {"probe": "#include <boost/multi/adaptors/lapack/syev.hpp>", "errors": first})
    else:
        rep.assumptions.append("syev.hpp compiles now, but no syev cases are implemented in replay_lapack.cpp: the syev part of C14 is NOT checked")
        vlib.log("C14: syev.hpp compiles -- syev cases are not implemented, that part of the property is unchecked")
    rep.notes["syev_header_compiles"] = bool(syev_ok)

    if tier == "quick":
        maxn, types, nseeds = 4, ["d", "z"], 5
    else:
        maxn, types, nseeds = 6, ["s", "d", "c", "z"], 14
    G = 8 * maxn + 8
    cases = generate(wd, maxn, types, rep)
    conc = []
    for k in range(nseeds):
        for idx, case in enumerate(cases):
            conc.append(concrete(case, k, idx, G))
    obs, crashed, unattributed = execute(exes, conc, wd, "c14")
    for cr in unattributed:
        rep.violation({"routine": cr["routine"], "kind": "process_crash_unattributed"}, {"crash": cr})

    per_class, accepted, rejected = {}, {}, {}
    for pid, c in enumerate(conc):
        kl = klass(c)
        if pid in crashed:
            rep.violation(sig_of(c, "process_crash"), {"case": c, "line": pline(pid, c), "crash": crashed[pid]})
            per_class[kl] = per_class.get(kl, 0) + 1
            continue
        o = obs.get(pid)
        if o is None or o.get("st") == "unsupported":
            raise vlib.Broken("no observation for case %d: %s" % (pid, pline(pid, c)))
        per_class[kl] = per_class.get(kl, 0) + 1
        if o["st"] == "ok":
            accepted[kl] = accepted.get(kl, 0) + 1
        elif o["st"] == "reject":
            rejected[kl] = rejected.get(kl, 0) + 1

    comps, states, ntr = validate(conc, obs, wd, "c14_mon", vlib.NPROC)
    rep.cov["states"] += states
    rep.cov["transitions"] += states
    bad = {}
    for cpl in comps:
        bad[cpl["id"]] = cpl["bad"]
    for pid, what in sorted(bad.items()):
        c = conc[pid]
        if what in HARNESS_VERDICTS:
            raise vlib.Broken("Lapack.tla rejects the test material itself (%s) for case %s" % (what, pline(pid, c)))
        rep.violation(sig_of(c, what), {"case": c, "line": pline(pid, c), "observed": obs.get(pid), "complaint": what})

    # no vacuity: every class of the lattice ran, and the classes the property claims produced accepted calls
    lattice = sorted({klass(c) for c in conc})
    missing = [kl for kl in lattice if per_class.get(kl, 0) == 0]
    if missing or len(lattice) < 20:
        raise vlib.Broken("classes never exercised: %s" % missing[:10])
    for r in ROUTINES:
        n_ok = sum(1 for pid, c in enumerate(conc) if c["rt"] == r and pid not in bad and pid not in crashed and obs[pid]["st"] == "ok")
        if n_ok == 0 and not any(c["rt"] == r and (pid in bad or pid in crashed) for pid, c in enumerate(conc)):
            raise vlib.Broken("routine %s: no accepted call was validated" % r)
        rep.cov.setdefault("validated_accepted_per_routine", {})[r] = n_ok
    nontrivial = sum(1 for pid, c in enumerate(conc) if pid not in bad and pid not in crashed and obs[pid]["st"] == "ok" and c["m"] * c["n"] >= 2
                     and (c["pad"] == 1 or c["orient"] == "col"))
    rep.cov["evaluations"] = len(conc)
    rep.cov["distinct_nontrivial"] = nontrivial
    rep.cov["traces_validated_against_impl"] = ntr - len(bad)
    rep.cov["per_class"] = per_class
    rep.cov["accepted_per_class"] = accepted
    rep.cov["rejected_per_class"] = rejected
    rep.cov["cases_in_lattice"] = len(cases)
    rep.cov["seeds_per_case"] = nseeds
    if conc:
        pid = len(conc) // 2
        rep.cov["samples"].append({"case": conc[pid], "observed_status": obs.get(pid, {}).get("st")})
    rep.assumptions += [
        "potrf data: H = L.L^H with integer (Gaussian integer) L, |offdiag| <= 2, diagonal in {1,2,4}: the factorization is exact in floating point and "
        "Lapack.tla checks the product exactly; the order k of the returned block is computed by integer Cholesky in TLA+",
        "geqrf/gesvd data: integer matrices |x| <= 8; results logged as round(x*4096); identities checked in fixed point (reconstruction to 1/16 absolute = 2^-7 of the entry bound, orthogonality to 2^-6)",
        "geqrf operands with one size of 66 (long and thin, short and wide): only acceptance and the frame are demanded, not the reconstruction",
        "geqrf: QR of the view or of its transpose is accepted (the adaptor hands the row-major view to the column-major routine; it documents neither)",
        "gesvd: the third output is taken as V^T (A = U.diag(s).VT), as its template parameter name says",
        "views that must be accepted: all orientations for potrf; unit-inner-stride operands for geqrf/gesvd; transposed operands may be rejected",
        "potrf on a failing row-major input returns the k leading ROWS (k x n) instead of the k x k block; only size() = k is documented and demanded",
        "getrf.hpp is excluded by the property text; syev.hpp does not compile at the pinned commit (known finding)",
    ]
    vlib.log("C14 %s: %d lattice cases x %d seeds = %d calls, %d records validated by Lapack.tla, %d complaints, %d process crashes"
             % (tier, len(cases), nseeds, len(conc), ntr, len(bad), len(crashed)))
    return rep.finish(level="model_checking",
                      rule="LapackGen.tla enumerates routine x element type x orientation x padding x sizes 1..%d (rectangular for geqrf/gesvd) x triangle x "
                           "planted pivot position; each case runs on %d seeded data sets with seeded paddings; Lapack.tla validates the before/after buffers "
                           "(guards, padding, other triangle), the returned view and the factorization identity of every call; non-trivial = accepted call on a "
                           "padded or transposed view with >= 2 elements" % (maxn, nseeds), exhaustive=False)


def replay(path):
    """re-run one recorded case (bin/vcheck C14 --replay <file>) and print the monitor's verdict"""
    with open(path) as f:
        doc = json.load(f)
    wd = vlib.workdir("c14_replay")
    exes, (syev_ok, _) = build(wd)
    if "case" not in doc["detail"]:       # the syev probe
        if not syev_ok:
            print("VIOLATION property=C14 replay=%s" % path)
            return 1
        vlib.log("C14 replay: syev.hpp compiles now")
        return 0
    c = doc["detail"]["case"]
    obs, crashed, unattributed = execute(exes, [c], wd, "c14_replay")
    if crashed or unattributed:
        print("VIOLATION property=C14 replay=%s" % path)
        vlib.log("  process crash:", (list(crashed.values()) + unattributed)[0]["stderr"][-400:])
        return 1
    comps, _, _ = validate([c], obs, wd, "c14_replay_mon", 1)
    for cpl in comps:
        if cpl["bad"] in HARNESS_VERDICTS:
            raise vlib.Broken("test material rejected: " + cpl["bad"])
        print("VIOLATION property=C14 replay=%s" % path)
        vlib.log("  complaint:", cpl["bad"], " status:", obs[0]["st"], obs[0].get("rej"))
        return 1
    vlib.log("C14 replay: the recorded case passes (status %s)" % obs[0]["st"])
    return 0
