"""C07 -- equality and ordering are deep, layout-independent and mutually consistent."""
import json
import os

import vlib

LAWS = ["Trichotomy", "Irreflexive", "Antisymmetric", "Transitive", "EqTransitive", "LeGeConsistent"]
OPN = ["==", "!=", "<", "<=", ">", ">="]


def consts(D, ext, vals, maxne, triples, emit, dbl=False):
    return {"CD": D, "CMaxExt": ext, "CVals": set(vals), "CMaxNE": maxne, "WithC": triples, "CEmit": emit, "DoubleSem": dbl}


# kinds whose extents are exact also without elements (views report what they were sliced to; owning arrays normalise
# a shape with a zero extent, which is why == between element-free ARRAYS is only checked for consistency with !=)
EXACT_EMPTY = {"padded_subblock", "padded_subblock_long", "const_padded_subblock"}


def cline(pid, rec):
    a, b = rec["a"], rec["b"]
    parts = ["C", str(pid), str(rec["D"])] + [str(x) for x in a["shape"]] + [str(len(a["val"]))] + [str(x) for x in a["val"]]
    parts += [str(x) for x in b["shape"]] + [str(len(b["val"]))] + [str(x) for x in b["val"]]
    return " ".join(parts) + "\n"


def run(tier):
    rep = vlib.Report("C07", tier)
    wd = vlib.workdir("c07")
    exe = os.path.join(wd, "replay_compare")
    exe_dbl = os.path.join(wd, "replay_compare_double")
    for (ok, text) in vlib.compile_many([(os.path.join(vlib.HARNESS, "replay_compare.cpp"), exe, []),
                                          (os.path.join(vlib.HARNESS, "replay_compare.cpp"), exe_dbl, ["-DVERIF_CMP_DOUBLE"])]):
        if not ok:
            raise vlib.Broken("replay_compare.cpp does not compile:\n" + text[-3000:])
    # 1. laws on the model (triples)
    laws = [("c07_laws_d1", consts(1, 3, [0, 1], 3, True, False)), ("c07_laws_d2", consts(2, 2, [0, 1], 4, True, False))]
    if tier == "thorough":
        laws.append(("c07_laws_d3", consts(3, 2, [0, 1], 4, True, False)))
    for name, c in laws:
        cfg = os.path.join(wd, name + ".cfg")
        vlib.write_cfg(cfg, spec="CSpec", constants=c, invariants=LAWS)
        res = vlib.run_tlc("Compare", cfg, name)
        rep.add_tlc(res)
        if res.violated:
            rep.violation({"kind": "design", "invariant": res.violated}, {"tlc": res.error_text})
    # 2. pairs replayed on the real operators
    pairs = [("c07_pairs_d0", consts(0, 0, [0, 1, 2], 1, False, True), []),
             ("c07_pairs_d1", consts(1, 3, [0, 1, 2], 3, False, True), []),
             ("c07_pairs_d2", consts(2, 2, [0, 1], 4, False, True), []),
             ("c07_pairs_d2w", consts(2, 3, [0, 1], 6, False, True), ["lean"]),
             ("c07_pairs_d3", consts(3, 2, [0, 1], 4, False, True), ["lean"]),
             # floating-point elements: signed zeros are equal, a NaN equals nothing (elements are compared with ==, not as bytes)
             ("c07_pairs_d1_double", consts(1, 2, [0, 1, 2, 3, 4], 2, False, True, True), []),
             # four-dimensional operands seen through a view whose two middle dimensions are exchanged in memory
             ("c07_pairs_d4_mid", consts(4, 2, [0, 1], 4, False, True), ["mid"]),
             ("c07_pairs_d2_double", consts(2, 2, [0, 2, 3], 2, False, True, True), ["lean"])]
    if tier == "thorough":
        pairs += [("c07_pairs_d3w", consts(3, 3, [0, 1], 6, False, True), ["lean"]),
                  ("c07_pairs_d4", consts(4, 2, [0, 1], 4, False, True), ["lean"]),
                  ("c07_pairs_d2x", consts(2, 3, [0, 1], 6, False, True), [])]
    nontrivial = set()
    per_kind = rep.cov.setdefault("per_kind_pair", {})
    for name, c, args in pairs:
        cfg = os.path.join(wd, name + ".cfg")
        vlib.write_cfg(cfg, spec="CSpec", constants=c, invariants=["Irreflexive"], constraints=["CEmitC"])
        res = vlib.run_tlc("Compare", cfg, name)
        rep.add_tlc(res)
        exps, lines = [], []
        for rec in vlib.emitted(res.out_path):
            exps.append(rec)
            lines.append(cline(len(exps) - 1, rec))
        obs, crashes = vlib.run_replayer_chunks(exe_dbl if c["DoubleSem"] else exe, lines, wd, name, args=args)
        for cr in crashes:
            if cr["id"] is None:
                raise vlib.Broken("replayer failed: " + cr["stderr"][-800:])
        crashed = {cr["id"]: cr for cr in crashes}
        nok = 0
        for pid, exp in enumerate(exps):
            if pid in crashed:
                rep.violation({"kind": "crash", "D": exp["D"]}, {"pair": exp, "crash": crashed[pid]})
                continue
            o = obs.get(pid)
            if o is None:
                rep.violation({"kind": "missing", "D": exp["D"]}, {"pair": exp})
                continue
            e = exp["ops"]
            want_ab = "".join(str(x) for x in e)
            want_ba = "".join(str(x) for x in [e[0], e[1], e[4], e[5], e[2], e[3]])
            good = True
            for ka, kb, bits in o["res"]:
                per_kind[ka + "|" + kb] = per_kind.get(ka + "|" + kb, 0) + 1
                same_elem = ("long" in ka) == ("long" in kb)
                if exp.get("nan") and not same_elem:
                    continue
                exact_empty = ka in EXACT_EMPTY and kb in EXACT_EMPTY
                for half, want in ((bits[:6], want_ab), (bits[6:], want_ba)):
                    for k in range(6):
                        g = half[k]
                        if g == "n" and not same_elem and k >= 2:
                            continue        # ordering between different element types is not provided
                        if exp["ordered"] == 0 and k >= 2:
                            continue        # empty operands: only == / != consistency
                        if exp["ordered"] == 0 and (exact_empty or exp.get("nan")) and k < 2:
                            if g != want[k]:
                                good = False
                                rep.violation({"kind": "wrong_result", "op": OPN[k], "D": exp["D"], "same_shape": exp["a"]["shape"] == exp["b"]["shape"],
                                               "ka": ka, "kb": kb, "nan": bool(exp.get("nan"))},
                                              {"pair": exp, "kinds": [ka, kb], "observed": bits, "prescribed": want_ab + want_ba})
                                break
                            continue
                        if exp["ordered"] == 0 and g in "01":
                            okk = (half[0] != half[1]) if (half[0] in "01" and half[1] in "01") else False
                            if not okk:
                                good = False
                                rep.violation({"kind": "eq_ne_inconsistent", "D": exp["D"], "ka": ka, "kb": kb}, {"pair": exp, "bits": bits})
                            continue
                        if g != want[k]:
                            good = False
                            what = "does_not_compile" if g == "n" else "assertion" if g == "x" else "wrong_result"
                            rep.violation({"kind": what, "op": OPN[k], "D": exp["D"], "same_shape": exp["a"]["shape"] == exp["b"]["shape"],
                                           "ka": ka, "kb": kb},
                                          {"pair": exp, "kinds": [ka, kb], "observed": bits, "prescribed": want_ab + want_ba})
                            break
            if good:
                nok += 1
                if exp["ordered"] and len(exp["a"]["val"]) >= 2:
                    nontrivial.add(json.dumps([exp["a"], exp["b"]]))
        rep.cov["evaluations"] += len(exps)
        rep.cov["traces_validated_against_impl"] += nok
        if len(rep.cov["samples"]) < 3 and exps:
            pid = len(exps) // 2
            rep.cov["samples"].append({"pair": exps[pid], "observed": obs.get(pid)})
        vlib.log("C07 %s: %d pairs, %d agree in every kind combination" % (name, len(exps), nok))
        os.remove(res.out_path)
    rep.cov["distinct_nontrivial"] = len(nontrivial)
    rep.assumptions = ["operands: zero-based; values in {0,1(,2)}; each side as array, const array, array_ref, rotated/strided view, padded sub-block view, array<long>",
                       "ordering operators between different element types are not provided by the library and not demanded"]
    return rep.finish(rule="TLC enumerates every pair of operand values (shape, elements) within the bounds of Compare.tla and checks the "
                      "order laws on every triple; each pair is evaluated with the real operators in up to 36 ownership/layout "
                      "combinations, both argument orders; non-trivial = both operands non-empty and >= 2 elements", exhaustive=True)
