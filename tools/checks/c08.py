"""C08 -- every element is constructed once and destroyed once; storage is returned."""
import json
import os

import vlib
from checks import arrays
from checks.c04 import consts

ALL_OPS = arrays.C04_OPS + arrays.C06_OPS


def complaints_to_violations(rep, comps, exps_by_name, extra=None):
    n = 0
    for c in comps:
        sig = {"kind": "lifecycle", "rule": c["bad"], "op": c.get("op"), "fault": "none" if c["seg"][1] < 0 else "injected", "exc": c.get("exc", "-")}
        if extra:
            sig.update(extra)
        detail = {"complaint": c}
        if exps_by_name is not None and 0 <= c["seg"][0] < len(exps_by_name):
            detail["history"] = exps_by_name[c["seg"][0]]["hist"]
        rep.violation(sig, detail)
        n += 1
    return n


def run(tier):
    rep = vlib.Report("C08", tier)
    wd = vlib.workdir("c08")
    exe_trk = arrays.build(wd, 2)
    exe_int = arrays.build(wd, 0)
    d0ops = ["ctor_default", "ctor_ext", "ctor_fill", "ctor_copy", "ctor_move", "assign_copy", "assign_move", "self_assign", "swap", "write", "destroy"]
    plan = [("c08_d0", consts(0, 0, 4, False, d0ops)), ("c08_d1", consts(1, 3, 3, False, ALL_OPS)), ("c08_d2", consts(2, 2, 3, False, ALL_OPS))]
    if tier == "thorough":
        deep_ops = ["ctor_iota", "ctor_copy", "ctor_move", "assign_copy", "assign_move", "assign_view", "assign_rview", "swap", "reextent", "reextent_move",
                    "clear", "destroy", "write"]
        plan += [("c08_d3", consts(3, 2, 2, False, ALL_OPS)), ("c08_d2_3slots", consts(2, 2, 3, False, ALL_OPS, slots=3)),
                 ("c08_d2_deep", consts(2, 2, 4, False, deep_ops))]
    events = 0
    for name, c in plan:
        traces = arrays.run_config(rep, "C08", name, c, exe_trk, wd, len(c["Slots"]), trace=True)
        comps, states = vlib.validate_traces("Lifecycle", "MSpec", traces, name + "_mon")
        events += states
        rep.cov["states"] += states
        rep.cov["transitions"] += states
        complaints_to_violations(rep, comps, rep.notes.get("_last_exps"), {"D": c["DimD"]})
        vlib.log("C08 %s: %d events validated by Lifecycle.tla, %d complaints" % (name, states, len(comps)))
        for t in traces:
            try:
                os.remove(t)
            except OSError:
                pass
    # sizing constructors and reextent without a value must not write to trivially default-constructible elements
    pat = [("c08_pattern_d2", consts(2, 2, 2, True, ["ctor_ext", "ctor_iota", "reextent", "reextent_move", "reextent_fill", "ctor_copy", "write", "clear", "destroy"]))]
    for name, c in pat:
        arrays.run_config(rep, "C08", name, c, exe_int, wd, len(c["Slots"]), pattern=True)
    rep.notes["events_validated"] = events
    rep.assumptions = ["the tracked element type and the ledger allocator are user-supplied types; every construction/assignment/destruction/"
                       "allocation the library performs on them is logged (no hook inside the library)",
                       "each history ends with the destruction of all arrays; the monitor requires nothing outstanding then"]
    return arrays.finish(rep, "histories of ArrayOps.tla (all constructor/assignment/move/swap/reextent/clear/reshape/assign operations) executed "
                         "with the tracked element type and ledger allocator; every recorded event is stepped through Lifecycle.tla; "
                         "non-trivial = history of >= 2 operations leaving an array of >= 2 elements", True)
