"""C06 -- reextent keeps the common part; clear, reshape and assign do what they say."""
import vlib
from checks import arrays
from checks.c04 import consts

BASE = ["ctor_default", "ctor_ext", "ctor_iota", "ctor_copy", "assign_copy", "write", "destroy", "assign_il", "ctor_move"]
PAIRS = ["ctor_iota", "reextent", "reextent_fill", "reextent_move", "reshape", "clear", "assign_empty"]


def run(tier):
    rep = vlib.Report("C06", tier)
    wd = vlib.workdir("c06")
    exe_int = arrays.build(wd, 0)
    exe_str = arrays.build(wd, 1)
    exe_pod = arrays.build(wd, 3)
    ops = BASE + arrays.C06_OPS
    plan = [("c06_d1_int", consts(1, 4, 3, True, ops), exe_int),
            ("c06_d2_int", consts(2, 2, 3, True, ops), exe_int),
            ("c06_d2_pairs_int", consts(2, 3, 2, True, PAIRS, slots=1), exe_int),     # all (old,new) extent pairs, extents 0..3
            ("c06_d2_pairs_str", consts(2, 3, 2, False, PAIRS, slots=1), exe_str),
            ("c06_d2_pairs_pod", consts(2, 3, 2, False, PAIRS, slots=1), exe_pod),
            ("c06_d1_pod", consts(1, 4, 3, False, ops), exe_pod),
            ("c06_d3_pairs_int", consts(3, 2, 2, True, PAIRS, slots=1), exe_int),
            ("c06_d4_pairs_int", consts(4, 1, 2, True, PAIRS, slots=1), exe_int)]
    if tier == "thorough":
        plan += [("c06_d3_pairs3_int", consts(3, 3, 2, True, PAIRS, slots=1), exe_int),
                 ("c06_d3_pairs_str", consts(3, 2, 2, False, PAIRS, slots=1), exe_str),
                 ("c06_d4_pairs2_int", consts(4, 2, 2, True, PAIRS, slots=1), exe_int),
                 ("c06_d2_depth3", consts(2, 2, 3, False, ops), exe_str),
                 ("c06_d1_pairs3", consts(1, 4, 4, True, PAIRS + ["write", "assign_copy", "ctor_copy"]), exe_int)]
    for name, c, exe in plan:
        arrays.run_config(rep, "C06", name, c, exe, wd, len(c["Slots"]))
    # beyond the exhaustive bound: random histories with extents up to 6 (old and new extents that are not multiples of each
    # other, common parts of 4 or 5 rows), TLC -simulate seeded by VERIF_SEED
    n_sim = 4 if tier == "quick" else 16
    for name, c, exe in (("c06_large_random_d2", consts(2, 6, 4, True, PAIRS + ["write", "assign_copy"], slots=1), exe_int),
                         ("c06_large_random_d1_str", consts(1, 7, 5, False, PAIRS + ["write"], slots=1), exe_str)):
        arrays.run_config(rep, "C06", name, c, exe, wd, len(c["Slots"]), sim={"simulate": n_sim, "depth": c["MaxDepth"] + 1, "workers": 8})
    missing = [o for o in arrays.C06_OPS if rep.cov.get("per_last_op", {}).get(o, 0) == 0]
    if missing:
        raise vlib.Broken("operations never exercised: %s" % missing)
    rep.assumptions = ["new elements of trivially default-constructible types created by reextent(x) without a value are unspecified and not compared",
                       "array::assign(extensions, value) is not exercised: it does not compile at the pinned commit (inaccessible base layout_t)"]
    return arrays.finish(rep, "every transition of ArrayOps.tla restricted to the C06 operation set: all (old extents, new extents) pairs "
                         "within the bounds for reextent with and without fill value, reshape to every extents with the same element "
                         "count, clear, = {}, assign(first,last), interleaved with copies/writes; non-trivial = history of >= 2 "
                         "operations leaving an array of >= 2 elements", True)
