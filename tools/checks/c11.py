"""C11 -- all guarantees are independent of the pointer type (fancy pointers)."""
import json
import os

import vlib
from checks import views, arrays
from checks import c02 as c02mod
from checks.c04 import consts as aconsts

KINDS = [(1, "minimal_fancy_pointer"), (2, "bounds_checking_pointer")]


def run(tier):
    rep = vlib.Report("C11", tier)
    wd = vlib.workdir("c11")
    jobs = []
    for k, _ in KINDS:
        jobs.append((os.path.join(vlib.HARNESS, "replay_views.cpp"), os.path.join(wd, "views_p%d" % k), ["-DVERIF_PTR_KIND=%d" % k]))
        jobs.append((os.path.join(vlib.HARNESS, "replay_iters.cpp"), os.path.join(wd, "iters_p%d" % k), ["-DVERIF_PTR_KIND=%d" % k]))
        for ek in (0, 1):
            jobs.append((os.path.join(vlib.HARNESS, "replay_arrays.cpp"), os.path.join(wd, "arrays_p%d_e%d" % (k, ek)), ["-DVERIF_PTR_KIND=%d" % k, "-DVERIF_ELEM_KIND=%d" % ek]))
    for (src, out, fl), (ok, text) in zip(jobs, vlib.compile_many(jobs)):
        if not ok:
            # the library does not instantiate over the pointer family: that is itself a violation of C11
            rep.violation({"kind": "does_not_compile", "harness": os.path.basename(src), "flags": " ".join(fl)}, {"compiler": text[-3000:]})
    if rep.violations:
        return rep.finish(rule="compilation over the pointer families", exhaustive=False)
    nontrivial = 0

    def ptr_events(obs, exps, part, kname, describe):
        n = 0
        for pid, o in obs.items():
            if isinstance(o, dict) and o.get("ptr_events", 0) != 0:
                sig = {"kind": "checking_pointer_event", "part": part, "what": o.get("ptr_first"), "op": describe(exps[pid])}
                if part == "arrays":
                    h = exps[pid]["hist"][-1]
                    tgt = exps[pid]["arrays"][h["s"] - 1]
                    sig["empty_result"] = (not tgt["live"]) or len(tgt["val"]) == 0
                rep.violation(sig,
                              {"case": exps[pid], "observed": o, "pointer": kname})
                n += 1
        return n

    # ---- views (the programs of C01)
    vc = {"MaxD": 3, "MaxExt": 2 if tier == "quick" else 3, "MaxDepth": 2, "MaxDim": 5, "Bases": vlib.Sub("BasesZero"), "OpNames": set(views.ALL_OPS),
          "ParenArgs": 3, "ParenLean": True, "OneDimQuirk": False, "Emit": True}
    for k, kname in KINDS:
        res = views.generate("c11_views_p%d" % k, vc, rep)
        n, nok, obs, exps = views.replay_and_compare(rep, "C11", res, os.path.join(wd, "views_p%d" % k), wd, check_first=True, label=kname,
                                                     sig_extra={"pointer": kname, "part": "views"})
        os.remove(res.out_path)
        ptr_events(obs, exps, "views", kname, lambda e: e["path"][-1]["op"] if e["path"] else "root")
        nontrivial += nok
        vlib.log("C11 views over %s: %d programs, %d agree" % (kname, n, nok))
    # ---- iterators (the programs of C02)
    ic = c02mod.base_constants()
    ic.update({"MaxD": 2, "MaxExt": 3, "MaxProg": 2, "MaxN": 4})
    cfg = os.path.join(wd, "c11_iters.cfg")
    vlib.write_cfg(cfg, spec="ISpec", constants=ic, invariants=["PosOK"], view="IVW", constraints=["IEmitC"])
    ires = vlib.run_tlc("Iterators", cfg, "c11_iters")
    rep.add_tlc(ires)
    iexps, ilines, seen = [], [], set()
    for rec in vlib.emitted(ires.out_path):
        kk = json.dumps([rec["root"], rec["path"], rec["kind"], rec["prog"]], sort_keys=True)
        if kk in seen:
            continue
        seen.add(kk)
        rec["empty"] = (len(rec["firsts"]) == 0 and rec["n"] == 0) or any(f == -1 for f in rec["firsts"]) or 0 in rec["root"]["shape"]
        iexps.append(rec)
        ilines.append(c02mod.line(len(iexps) - 1, rec))
    os.remove(ires.out_path)
    for k, kname in KINDS:
        obs, crashes = vlib.run_replayer_chunks(os.path.join(wd, "iters_p%d" % k), ilines, wd, "iters" + kname)
        crashed = {cr["id"] for cr in crashes if cr["id"] is not None}
        nok = 0
        for pid, exp in enumerate(iexps):
            if pid in crashed:
                rep.violation({"kind": "crash", "part": "iterators", "pointer": kname, "iter": exp["kind"]}, {"case": exp})
                continue
            bad = c02mod.compare(exp, obs.get(pid))
            if bad:
                rep.violation({"kind": "mismatch", "part": "iterators", "pointer": kname, "iter": exp["kind"], "field": bad[0][0],
                               "op": exp["prog"][-1]["op"] if exp["prog"] else "begin"}, {"case": exp, "observed": obs.get(pid), "mismatches": bad[:3]})
            else:
                nok += 1
        ptr_events(obs, iexps, "iterators", kname, lambda e: e["prog"][-1]["op"] if e["prog"] else "begin")
        rep.cov["evaluations"] += len(iexps)
        rep.cov["traces_validated_against_impl"] += nok
        nontrivial += nok
        vlib.log("C11 iterators over %s: %d programs, %d agree" % (kname, len(iexps), nok))
    # ---- owning arrays whose allocator's pointer is the user-defined pointer (histories of C04/C06)
    ops = arrays.C04_OPS + arrays.C06_OPS
    for k, kname in KINDS:
        for ek, trivial, D, depth in ((0, True, 2, 3), (1, False, 1, 3), (1, False, 2, 2)):
            name = "c11_arrays_p%d_e%d_d%d" % (k, ek, D)
            c = aconsts(D, 2, depth, trivial, ops)
            arrays.run_config(rep, "C11", name, c, os.path.join(wd, "arrays_p%d_e%d" % (k, ek)), wd, 2, sig_extra={"pointer": kname, "part": "arrays"})
            obs = rep.notes.get("_last_obs", {})
            exps = rep.notes.get("_last_exps", [])
            ptr_events(obs, exps, "arrays", kname, lambda e: e["hist"][-1]["op"])
        # ... arrays of up to 9 elements: element-wise exchanges and copies between two allocations (views, array_ref's)
        name = "c11_arrays_p%d_nine" % k
        c = aconsts(2, 3, 3, True, ["ctor_iota", "swap_views", "ref_assign", "assign_view", "assign_copy", "write"])
        arrays.run_config(rep, "C11", name, c, os.path.join(wd, "arrays_p%d_e0" % k), wd, 2, sig_extra={"pointer": kname, "part": "arrays_nine"})
        ptr_events(rep.notes.get("_last_obs", {}), rep.notes.get("_last_exps", []), "arrays", kname, lambda e: e["hist"][-1]["op"])
        # ... and arrays with index bases (the array histories of C19): reextent by index extensions, copies, assignment
        bops = ["ctor_ext", "ctor_iota", "ctor_copy", "ctor_move", "ctor_view", "decay", "assign_copy", "assign_move", "assign_view", "swap",
                "write", "destroy", "reextent", "reextent_fill", "clear", "reshape"]
        for D, depth, ab in ((1, 3, "ABasesMixed"), (2, 2, "ABasesTwo")):
            name = "c11_arrays_p%d_bases_d%d" % (k, D)
            c = aconsts(D, 2, depth, True, bops)
            c["ABases"] = vlib.Sub(ab)
            arrays.run_config(rep, "C11", name, c, os.path.join(wd, "arrays_p%d_e0" % k), wd, 2, check_first=True, sig_extra={"pointer": kname, "part": "arrays_bases"})
            ptr_events(rep.notes.get("_last_obs", {}), rep.notes.get("_last_exps", []), "arrays", kname, lambda e: e["hist"][-1]["op"])
    nt = rep.notes.pop("_nontrivial", set())
    rep.notes.pop("_last_exps", None)
    rep.notes.pop("_last_obs", None)
    rep.cov["distinct_nontrivial"] = nontrivial + len(nt)
    rep.assumptions = ["the minimal fancy pointer is a class type with its own arithmetic/comparison/dereference, no implicit conversion to or from T*, plain T& references",
                       "the checking pointer records dereferences outside its block (or of null) and arithmetic/comparison across blocks; the harness reads raw addresses through an escape hatch the library cannot name",
                       "code paths of the library that no program of C01/C02/C04/C06 instantiates are not observed"]
    return rep.finish(rule="the TLC-generated programs of C01 (views), C02 (iterators) and C04/C06 (owning arrays over an allocator with a fancy pointer, int and "
                      "std::string elements) are replayed with the replayers instantiated over a minimal fancy pointer and over a bounds-checking pointer; "
                      "every observation must equal what the specification prescribes (as for raw pointers) and the checking pointer must record no event",
                      exhaustive=True)
