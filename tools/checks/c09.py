"""C09 -- failures (allocation or element exceptions) leave no leak and valid arrays."""
import os

import vlib
from checks import arrays
from checks.c04 import consts
from checks.c08 import ALL_OPS, complaints_to_violations


# operations that copy or move elements between two existing arrays (three-step histories: make two arrays, then the operation)
NM_OPS = ["ctor_iota", "ctor_fill", "ctor_copy", "ctor_move", "assign_copy", "assign_move", "assign_view", "assign_other", "assign_range",
          "ref_assign", "ref_assign_move", "swap", "reextent", "reextent_fill"]


def run(tier):
    rep = vlib.Report("C09", tier)
    wd = vlib.workdir("c09")
    exe_trk = arrays.build(wd, 2)
    # the same element with noexcept moves that cannot fail and copies that can (like std::string): exposes code whose
    # exception specification follows the move although it copies
    exe_nm = arrays.build(wd, 2, name="replay_arrays_2nm", extra_flags=["-DVERIF_TRACKED_NOEXCEPT_MOVE"])
    # ... and an allocator that constructs the elements itself and can fail doing so (uses-allocator construction, as with pmr)
    exe_nmcf = arrays.build(wd, 2, name="replay_arrays_2nmcf", extra_flags=["-DVERIF_TRACKED_NOEXCEPT_MOVE", "-DVERIF_ALLOC_CONSTRUCT_FAULTS"])
    d0ops = ["ctor_default", "ctor_ext", "ctor_fill", "ctor_copy", "ctor_move", "assign_copy", "assign_move", "self_assign", "swap", "write", "destroy"]
    # a trivially copyable, trivially destructible element whose default and converting constructors can fail: "plain memory"
    # as far as copies go, yet sizing constructors and construction from an array of another element type can still throw
    exe_tpod = arrays.build(wd, 4)
    TPOD_OPS = ["ctor_default", "ctor_ext", "ctor_fill", "ctor_iota", "ctor_other", "assign_other", "ctor_copy", "assign_copy", "reextent", "reextent_fill", "destroy"]
    plan = [("c09_d1_tpod", consts(1, 2, 2, False, TPOD_OPS), exe_tpod), ("c09_d2_tpod", consts(2, 2, 2, False, TPOD_OPS), exe_tpod), ("c09_d0", consts(0, 0, 3, False, d0ops), exe_trk), ("c09_d1", consts(1, 2, 3, False, ALL_OPS), exe_trk), ("c09_d2", consts(2, 2, 2, False, ALL_OPS), exe_trk),
            ("c09_d1_nm", consts(1, 2, 3, False, NM_OPS), exe_nm), ("c09_d2_nm", consts(2, 2, 2, False, ALL_OPS), exe_nm),
            ("c09_d1_nmcf", consts(1, 2, 3, False, NM_OPS), exe_nmcf),
            # unequal, non-propagating allocators: move construction with an allocator / move assignment transfer element by element
            ("c09_d1_nmcf_al", dict(consts(1, 2, 3, False, ["ctor_iota_al", "ctor_copy_al", "ctor_move_al", "assign_copy", "assign_move", "assign_view", "reextent"]),
                                    AllocIds={1, 3}), exe_nmcf)]
    if tier == "thorough":
        plan += [("c09_d1_deep", consts(1, 2, 3, False, ALL_OPS), exe_trk), ("c09_d2_deep", consts(2, 2, 3, False, ALL_OPS), exe_trk),
                 ("c09_d3", consts(3, 2, 2, False, ALL_OPS), exe_trk), ("c09_d1_nm_deep", consts(1, 2, 3, False, ALL_OPS), exe_nm)]
    events = faulted = 0
    for name, c, exe_used in plan:
        traces = arrays.run_config(rep, "C09", name, c, exe_used, wd, len(c["Slots"]), trace=True, faults=True, judge_values=False)
        obs = rep.notes.get("_last_obs", {})
        faulted += sum(int(o.get("points_last", 0)) for o in obs.values() if isinstance(o, dict))
        comps, states = vlib.validate_traces("Lifecycle", "MSpec", traces, name + "_mon")
        events += states
        rep.cov["states"] += states
        rep.cov["transitions"] += states
        complaints_to_violations(rep, comps, rep.notes.get("_last_exps"), {"D": c["DimD"]})
        vlib.log("C09 %s: %d events validated by Lifecycle.tla, %d complaints" % (name, states, len(comps)))
        for t in traces:
            try:
                os.remove(t)
            except OSError:
                pass
    rep.notes["events_validated"] = events
    rep.notes["faulted_runs"] = faulted
    rep.cov["evaluations"] += faulted
    rep.assumptions = ["single fault per history, injected at every injection point (allocation, element construction/assignment) of the LAST "
                       "operation; every prefix of a history is itself a history, so all operations are covered",
                       "after a failed operation every array is probed: all elements read, a fresh array copy-assigned over it, destroyed"]
    return arrays.finish(rep, "for every history of ArrayOps.tla within the bounds and every injection point k of its last operation, the history is "
                         "re-executed with the k-th allocation/element operation throwing; all events, the post-failure probes and the "
                         "final state are validated by Lifecycle.tla (NoLeak, HandleConsistent, no double destroy/deallocate, exception "
                         "reaches the caller, no allocation where none is needed)", True, level="fault_enumeration")
