"""Direction G for view programs: TLC enumerates ViewAlgebra.tla (checking Refines/InBounds on
every state) and emits one (program, prescribed state) record per transition; the programs
are replayed on the real library by harness/replay_views.cpp; observations must equal what
the specification prescribes.  Used by C01, C19, C20, C11."""
import json
import os

import vlib

ALL_OPS = ["index", "sliced", "strided", "dropped", "taked", "rotated", "unrotated", "transposed", "reversed",
           "diagonal", "partitioned", "chunked", "flatted", "broadcast", "paren", "halved", "sliced3", "tilde", "range", "front", "back", "addr", "tiled_q", "tiled_r"]
LAYOUT_CHANGING = set(ALL_OPS) - {"broadcast", "addr"}


RECV_SUFFIX = {"lv": "", "const": "@c", "rv": "@r"}   # receiver value category of an operation, carried in the operation's name


def program_line(pid, rec):
    r = rec["root"]
    parts = ["P", str(pid), str(len(r["shape"]))] + [str(x) for x in r["shape"]] + [str(x) for x in r["first"]]
    parts.append(str(len(rec["path"])))
    for o in rec["path"]:
        parts += [("^" if o.get("on") == "array" else "") + o["op"] + RECV_SUFFIX.get(o.get("recv", "lv"), ""), str(len(o["args"]))] + [str(a) for a in o["args"]]
    return " ".join(parts) + "\n"


def generate(name, constants, report, timeout=1500, simulate=None, depth=None, heap="12g", workers=None):
    wd = os.path.join(vlib.BUILD, name)
    os.makedirs(wd, exist_ok=True)
    cfg = os.path.join(wd, name + ".cfg")
    vlib.write_cfg(cfg, constants=constants, invariants=["Refines", "InBounds", "Affine", "TypeOK"], view="VW",
                   constraints=["EmitC"])
    kw = {"workers": workers} if workers else {}
    res = vlib.run_tlc("ViewAlgebra", cfg, name, timeout=timeout, simulate=simulate, depth=depth, heap=heap, **kw)
    report.add_tlc(res)
    return res


def compare(exp, obs, check_first, strict_empty_sizes=False):
    """returns list of (field, expected, observed) mismatches -- equality only"""
    bad = []
    if obs is None:
        return [("missing", None, None)]
    if obs.get("st") == "abort":
        a = obs.get("abort", {})
        return [("abort:%s:%s" % (a.get("kind"), a.get("line")), "ok", a)]
    if obs.get("st") != "ok":
        return [("status", "ok", str(obs.get("st")) + ":" + str(obs.get("why")))]
    if "obs_abort" in obs:
        return [("abort_in_observation", "ok", obs["obs_abort"])]
    if obs.get("D") != len(exp["shape"]):
        bad.append(("D", len(exp["shape"]), obs.get("D")))
        return bad
    if exp["ne"] == 0:
        # zero-size corner: the library may collapse outer sizes; demand only what the property can mean
        if obs.get("ne") != 0:
            bad.append(("num_elements", 0, obs.get("ne")))
        prod = 1
        for s in obs.get("sizes", []):
            prod *= s
        if prod != 0:
            bad.append(("sizes_product", 0, prod))
        if "empty" in obs and obs["empty"] != (obs["size"] == 0):
            bad.append(("is_empty_vs_size", obs["size"] == 0, obs["empty"]))
        return bad
    if obs.get("D") == 0:
        if obs.get("cells") != exp["cells"]:
            bad.append(("cells", exp["cells"], obs.get("cells")))
        return bad
    if obs["sizes"] != exp["shape"]:
        bad.append(("sizes", exp["shape"], obs["sizes"]))
    if obs["ne"] != exp["ne"]:
        bad.append(("num_elements", exp["ne"], obs["ne"]))
    if obs["size"] != exp["shape"][0]:
        bad.append(("size", exp["shape"][0], obs["size"]))
    if obs["empty"]:
        bad.append(("is_empty", False, True))
    if check_first:
        ext = [[f, f + n] for f, n in zip(exp["first"], exp["shape"])]
        if obs.get("ext") != ext:
            bad.append(("extensions", ext, obs.get("ext")))
    else:
        oext = obs.get("ext") or []
        if [b - a for a, b in oext] != exp["shape"]:
            bad.append(("extension_sizes", exp["shape"], oext))
    for d, s in enumerate(exp["sstr"]):
        if s != 0 and obs["strides"][d] != s:
            bad.append(("strides", exp["sstr"], obs["strides"]))
            break
    if obs.get("cells") is None:
        bad.append(("abort_in_indexing", exp["cells"], obs.get("cells_abort")))
        return bad
    if obs["cells"] != exp["cells"]:
        bad.append(("cells", exp["cells"], obs["cells"]))
    for k, v in obs.get("agree", {}).items():
        if v is not True:
            if isinstance(v, dict):
                bad.append(("access_path_abort:" + k, obs["cells"], v))
            else:
                bad.append(("access_path:" + k, obs["cells"], v))
    if obs.get("esize") != exp["ne"]:
        bad.append(("elements_size", exp["ne"], obs.get("esize")))
    return bad


def build_replayer(wd, flags=(), name="replay_views"):
    exe = os.path.join(wd, name)
    ok, text = vlib.compile_cpp(os.path.join(vlib.HARNESS, "replay_views.cpp"), exe, flags=flags)
    return (exe if ok else None), text


# ---------------------------------------------------------------------------------------------------------------------
# Compile probe.  The view programs call every operation of ViewAlgebra.tla through every receiver value category, so a
# library in which one of these overloads stops compiling breaks the replayer's build.  Rather than reporting "broken",
# the probe compiles one translation unit per (operation, receiver category, dimensionality, array/view) and names the
# combinations that do not compile: the specification's domain (ApplyPre) says which must exist.
PROBE_EXPR = {
    "index": "X[0]", "sliced": "X.sliced(0, 1)", "strided": "X.strided(2)", "dropped": "X.dropped(1)", "taked": "X.taked(1)",
    "rotated": "X.rotated()", "unrotated": "X.unrotated()", "transposed": "X.transposed()", "reversed": "X.reversed()",
    "diagonal": "X.diagonal()", "partitioned": "X.partitioned(1)", "chunked": "X.chunked(1)", "flatted": "X.flatted()",
    "broadcast": "X.broadcasted()", "paren": "X({0, 1})", "halved": "X.halved()", "sliced3": "X.sliced(0, 2, 2)", "tilde": "~X",
    "range": "X.range({0, 1})", "tiled_q": "X.tiled(1).quotient", "tiled_r": "X.tiled(1).remainder", "front": "X.front()", "back": "X.back()", "addr": "&X",
    "reindexed": "X.reindexed(1)", "blocked": "X.blocked(0, 1)", "stenciled": "X.stenciled({0, 1})", "stenciled2": "X.stenciled({0, 1}, {0, 1})",
    "elements": "X.elements()", "home": "X.home()", "begin": "X.begin()",
}
PROBE_NEEDS_D2 = {"transposed", "diagonal", "flatted", "tilde", "stenciled2"}
PROBE_RECV = {"lv": "a", "const": "std::as_const(a)", "rv": "std::move(a)"}
PROBE_KIND = {"array": "multi::array<int, D>", "view": "multi::subarray<int, D>"}


def compile_probe(wd):
    """returns the list of (op, recv, D, kind, first error line) that do not compile although the operation is in the
    specification's domain for that dimensionality"""
    import subprocess
    from concurrent.futures import ThreadPoolExecutor
    pdir = os.path.join(wd, "probe")
    os.makedirs(pdir, exist_ok=True)
    jobs = []
    for D in (1, 2, 3):
        for kn, kt in PROBE_KIND.items():
            for rn, rx in PROBE_RECV.items():
                for on, ox in PROBE_EXPR.items():
                    if D == 1 and on in PROBE_NEEDS_D2:
                        continue
                    if on == "addr" and kn == "array" and rn == "rv":
                        continue   # the address of a temporary owning array is deleted on purpose
                    src = ("#include <boost/multi/array.hpp>\n#include <utility>\nnamespace multi = boost::multi;\nconstexpr int D = %d; using A = %s;\n"
                           "void f(A& a) { auto&& r = %s; (void)r; }\n" % (D, kt, ox.replace("X", "(" + rx + ")")))
                    jobs.append((on, rn, D, kn, src))

    def one(j):
        on, rn, D, kn, src = j
        f = os.path.join(pdir, "p_%s_%s_%d_%s.cpp" % (on, rn, D, kn))
        with open(f, "w") as fh:
            fh.write(src)
        p = subprocess.run(["g++", "-std=c++17", "-w", "-fsyntax-only", "-I" + os.path.join(vlib.REPO, "include"), f],
                           stdout=subprocess.PIPE, stderr=subprocess.STDOUT, text=True)
        os.remove(f)
        if p.returncode == 0:
            return None
        errs = [ln for ln in p.stdout.splitlines() if "error" in ln]
        return (on, rn, D, kn, (errs[0] if errs else p.stdout[-200:])[:300])
    with ThreadPoolExecutor(max_workers=vlib.NPROC) as ex:
        return [r for r in ex.map(one, jobs) if r is not None], len(jobs)


def report_build_failure(rep, wd, text, what):
    """the replayer does not build: name the operations that stopped compiling (VIOLATION), or give up (BROKEN)"""
    fails, n = compile_probe(wd)
    if not fails:
        raise vlib.Broken("%s does not compile against %s (and the per-operation probe of %d units finds nothing):\n%s" % (what, vlib.REPO, n, text[-3000:]))
    for on, rn, D, kn, err in fails:
        rep.violation({"kind": "does_not_compile", "op": on, "recv": rn, "D": D, "on": kn}, {"error": err, "probe_units": n})
    rep.cov["evaluations"] += n
    rep.cov["samples"].append({"probe": "one translation unit per (operation, receiver category, D, array/view)", "failed": [list(f[:4]) for f in fails[:5]]})


def replay_and_compare(report, prop, res, exe, wd, check_first, max_programs=None, label="", sig_extra=None,
                       crash_is_violation=True):
    """replays every emitted record; fills report; returns (n_programs, n_ok, obs_by_id, exps)"""
    exps = []
    lines = []
    for rec in vlib.emitted(res.out_path):
        if max_programs and len(exps) >= max_programs:
            break
        exps.append(rec)
        lines.append(program_line(len(exps) - 1, rec))
    if not exps:
        raise vlib.Broken("TLC emitted no programs (%s)" % res.out_path)
    obs, crashes = vlib.run_replayer_chunks(exe, lines, wd, label)
    crashed = {}
    for c in crashes:
        if c["id"] is None:
            raise vlib.Broken("replayer failed without announcing a program: rc=%s %s" % (c["rc"], c["stderr"][-500:]))
        crashed[c["id"]] = c
    nok = 0
    nontrivial = set()
    per_op = {}
    for pid, exp in enumerate(exps):
        path = exp["path"]
        lastop = path[-1]["op"] if path else "root"
        per_op[lastop] = per_op.get(lastop, 0) + 1
        if path and path[-1].get("recv", "lv") != "lv":
            per_recv = report.cov.setdefault("per_receiver_category", {})
            per_recv[path[-1]["recv"]] = per_recv.get(path[-1]["recv"], 0) + 1
        key = json.dumps([exp["root"], path], sort_keys=True)
        if pid in crashed:
            c = crashed[pid]
            sig = {"kind": "abort", "op": lastop, "D": len(exp["root"]["shape"]),
                   "assert": first_assert_line(c["stderr"])}
            if sig_extra:
                sig.update(sig_extra)
            if crash_is_violation:
                report.violation(sig, {"program": exp, "crash": c, "mode": label})
            continue
        o = obs.get(pid)
        if o is not None and o.get("st") == "unsupported":      # a limit of the harness (e.g. more than 5 dimensions), not a verdict
            report.notes["unsupported_by_harness"] = report.notes.get("unsupported_by_harness", 0) + 1
            continue
        bad = compare(exp, o, check_first)
        if bad:
            sig = {"kind": "mismatch", "op": lastop, "field": bad[0][0], "D": len(exp["root"]["shape"]),
                   "rebased": any(f != 0 for f in exp["root"]["first"])}
            if path and path[-1].get("recv", "lv") != "lv":
                sig["recv"] = path[-1]["recv"]
            if sig_extra:
                sig.update(sig_extra)
            report.violation(sig, {"program": exp, "observed": o, "mismatches": bad[:4], "mode": label})
        else:
            nok += 1
            if exp["ne"] >= 2 and any(p["op"] in LAYOUT_CHANGING for p in path):
                nontrivial.add(key)
        # code-shaped model vs real layout numbers: drift only, never a verdict
        if o and o.get("st") == "ok" and exp["ne"] > 0 and o.get("D", 0) > 0:
            if o.get("lay") != exp["lay"] or o.get("base") != exp["base"]:
                if len(report.drift) < 20:
                    report.drift.append({"program": path, "root": exp["root"], "model": [exp["base"], exp["lay"]],
                                         "code": [o.get("base"), o.get("lay")]})
                report.notes["model_drift_count"] = report.notes.get("model_drift_count", 0) + 1
    report.cov["evaluations"] += len(exps)
    report.cov["traces_validated_against_impl"] += nok
    report.cov["distinct_nontrivial"] += len(nontrivial)
    po = report.cov.setdefault("per_last_op", {})
    for k, v in per_op.items():
        po[k] = po.get(k, 0) + v
    if len(report.cov["samples"]) < 3:
        for pid in (len(exps) // 3, len(exps) // 2, len(exps) - 1):
            report.cov["samples"].append({"program": exps[pid]["path"], "root": exps[pid]["root"],
                                          "prescribed": {k: exps[pid][k] for k in ("shape", "first", "cells")},
                                          "observed": obs.get(pid)})
    return len(exps), nok, obs, exps


def first_assert_line(err):
    for l in err.splitlines():
        if "Assertion" in l or "assert" in l:
            # keep file:line + expression, drop the binary name
            i = l.find("include/boost/multi")
            return l[i:i + 160] if i >= 0 else l[:160]
    return err.strip().splitlines()[-1][:160] if err.strip() else "signal"
