"""C17 -- serialization round-trips every array exactly."""
import json
import os

import vlib
from checks import views

ETYPES = ["int", "double", "string"]


WIDE = 2 ** 31 + 5     # Serialization!WIDE: an extent that does not fit 32 bits, spelled -1 in the specification


def wide(rec):
    """substitute the wide extent (the specification's -1) in shapes and in the extension tokens of a record"""
    def sh(v):
        return [WIDE if x == -1 else (WIDE + 1 if x == 0 and False else x) for x in v]
    src, pv = rec["src"], rec["priorval"]
    if -1 not in src["shape"] and -1 not in pv["shape"]:
        return rec
    r = dict(rec)
    r["src"] = dict(src, shape=sh(src["shape"]))
    # the prior "other" adds one to every extent (-1 + 1 = 0 in the specification): keep it element-free and small
    r["priorval"] = dict(pv, shape=sh(pv["shape"]))
    D = rec["D"]
    toks = list(rec["tokens"])
    for d in range(D):
        if src["shape"][d] == -1:
            toks[2 * d + 1] = src["first"][d] + WIDE
    r["tokens"] = toks
    return r


def sline(pid, rec, etype):
    a, p = rec["src"], rec["priorval"]
    parts = ["S", str(pid), str(rec["D"])] + [str(x) for x in a["shape"]] + [str(x) for x in a["first"]] + [rec["prior"]]
    parts += [str(x) for x in p["shape"]] + [str(x) for x in p["first"]] + [etype]
    return " ".join(parts) + "\n"


def run(tier):
    rep = vlib.Report("C17", tier)
    wd = vlib.workdir("c17")
    exe = os.path.join(wd, "replay_serial")
    ok, text = vlib.compile_cpp(os.path.join(vlib.HARNESS, "replay_serial.cpp"), exe, std="c++20", libs=["-lboost_serialization"])
    if not ok:
        raise vlib.Broken("replay_serial.cpp does not compile:\n" + text[-3000:])
    nontrivial = set()
    # ---- arrays
    plan = [(1, 3, "SBasesMixed"), (2, 2, "SBasesMixed"), (3, 2, "SBasesZero"), (4, 1, "SBasesZero")]
    if tier == "thorough":
        plan = [(1, 4, "SBasesMixed"), (2, 3, "SBasesMixed"), (3, 2, "SBasesMixed"), (4, 2, "SBasesZero")]
    for D, ext, bases in plan:
        name = "c17_arr_d%d" % D
        cfg = os.path.join(wd, name + ".cfg")
        c = {"SD": D, "SMaxExt": ext, "SBases": vlib.Sub(bases), "Priors": {"empty", "same", "other", "shifted", "reshaped"}, "SEmit": True}
        vlib.write_cfg(cfg, spec="SSpec", constants=c, invariants=["RoundTrip"], constraints=["SEmitC"])
        res = vlib.run_tlc("Serialization", cfg, name)
        rep.add_tlc(res)
        if res.violated:
            rep.violation({"kind": "design", "invariant": res.violated}, {"tlc": res.error_text})
            continue
        recs = [wide(r) for r in vlib.emitted(res.out_path)]
        os.remove(res.out_path)
        exps, lines = [], []
        for rec in recs:
            for et in (ETYPES if D <= 2 or tier == "thorough" else ["int"]):
                exps.append((rec, et))
                lines.append(sline(len(exps) - 1, rec, et))
        obs, crashes = vlib.run_replayer_chunks(exe, lines, wd, name)
        crashed = {cr["id"]: cr for cr in crashes if cr["id"] is not None}
        nok = 0
        for pid, (rec, et) in enumerate(exps):
            o = obs.get(pid)
            ne = len(rec["src"]["val"])
            sig0 = {"part": "array", "D": D, "prior": rec["prior"], "etype": et, "empty": ne == 0, "rebased": any(f != 0 for f in rec["src"]["first"])}
            if pid in crashed or o is None:
                rep.violation(dict(sig0, kind="crash"), {"case": rec, "crash": crashed.get(pid)})
                continue
            if o.get("st") != "ok":
                rep.violation(dict(sig0, kind=o.get("st"), line=(o.get("abort") or {}).get("line")), {"case": rec, "observed": o})
                continue
            bad = []
            src = o["src"]
            for ar in ("text", "binary", "xml"):
                got = o[ar]
                # equal to the original in extents and elements (the original as the library itself reports it)
                if got.get("sizes") != src.get("sizes") or got.get("first") != src.get("first") or got.get("val") != src.get("val"):
                    bad.append((ar + "_loaded_differs", src, got))
                if o.get(ar + "_eq") is not True:
                    bad.append((ar + "_operator==", True, o.get(ar + "_eq")))
            if ne > 0:
                if src.get("val") != rec["src"]["val"] or src.get("first") != rec["src"]["first"]:
                    bad.append(("harness_source", rec["src"], src))
                if "pmr_eq" in o:
                    if o.get("pmr_eq") is not True:
                        bad.append(("pmr_loaded_differs", True, o.get("pmr_eq")))
                    if o.get("pmr_names_its_resource") is not True or o.get("pmr_block_from_its_resource") is not True:
                        bad.append(("pmr_array_left_its_memory_resource", True, [o.get("pmr_names_its_resource"), o.get("pmr_block_from_its_resource")]))
                    if o.get("pmr_foreign_deallocations") != 0 or o.get("pmr_left_allocated") != 0:
                        bad.append(("pmr_blocks_returned_to_another_resource_or_leaked", [0, 0], [o.get("pmr_foreign_deallocations"), o.get("pmr_left_allocated")]))
                if o.get("xml_tokens") != rec["tokens"]:
                    bad.append(("archive_token_order", rec["tokens"], o.get("xml_tokens")))
            if bad:
                rep.violation(dict(sig0, kind="mismatch", field=bad[0][0]), {"case": rec, "observed": o, "mismatches": bad[:3]})
            else:
                nok += 1
                if ne >= 2:
                    nontrivial.add(json.dumps([rec["src"], rec["prior"], et]))
        rep.cov["evaluations"] += len(exps)
        rep.cov["traces_validated_against_impl"] += nok
        if len(rep.cov["samples"]) < 2 and exps:
            rep.cov["samples"].append({"case": exps[len(exps) // 2][0], "etype": exps[len(exps) // 2][1], "observed": obs.get(len(exps) // 2)})
        vlib.log("C17 %s: %d round trips x 3 archives, %d agree" % (name, len(exps), nok))
    # ---- views: save exactly the view's elements in canonical order, load into views of equal extents and other layouts
    vc = {"MaxD": 3, "MaxExt": 2 if tier == "quick" else 3, "MaxDepth": 2, "MaxDim": 3, "Bases": vlib.Sub("BasesZero"),
          "OpNames": set(o for o in views.ALL_OPS if o != "broadcast"), "ParenArgs": 3, "ParenLean": True, "OneDimQuirk": False, "Emit": True}
    res = views.generate("c17_views", vc, rep)
    vexps = [r for r in vlib.emitted(res.out_path) if len(r["shape"]) >= 1 and r["ne"] >= 1]
    os.remove(res.out_path)
    seen, uniq = set(), []
    for r in vexps:
        k = json.dumps([r["root"], r["path"]], sort_keys=True)
        if k not in seen:
            seen.add(k)
            uniq.append(r)
    vexps = uniq
    lines = ["W " + " ".join(views.program_line(k, r).split()[1:]) + "\n" for k, r in enumerate(vexps)]
    obs, crashes = vlib.run_replayer_chunks(exe, lines, wd, "c17_views")
    crashed = {cr["id"]: cr for cr in crashes if cr["id"] is not None}
    nok = 0
    for pid, rec in enumerate(vexps):
        o = obs.get(pid)
        vop = "+".join(p["op"] for p in rec["path"]) or "root"
        sig0 = {"part": "view", "view": vop, "Dv": len(rec["shape"])}
        if pid in crashed or o is None:
            rep.violation(dict(sig0, kind="crash"), {"case": rec, "crash": crashed.get(pid)})
            continue
        if o.get("st") == "unsupported":
            continue
        if o.get("st") != "ok":
            rep.violation(dict(sig0, kind=o.get("st"), line=(o.get("abort") or {}).get("line")), {"case": rec, "observed": o})
            continue
        want = [1000 + c for c in rec["cells"]]
        n = 1
        for s in rec["root"]["shape"]:
            n *= s
        bad = []
        for ar in ("text", "binary", "xml"):
            if o.get(ar + "_fresh") != want:
                bad.append((ar + "_into_array_view", want, o.get(ar + "_fresh")))
            if o.get(ar + "_rot") != want:
                bad.append((ar + "_into_rotated_view", want, o.get(ar + "_rot")))
            if o.get(ar + "_cfresh") != want:
                bad.append((ar + "_saved_from_a_read_only_view", want, o.get(ar + "_cfresh")))
            if o.get(ar + "_rot_frame") is False:
                bad.append((ar + "_load_touched_other_elements", True, False))
        if o.get("xml_tokens") != want:
            bad.append(("view_token_order", want, o.get("xml_tokens")))
        if o.get("root") != [1000 + c for c in range(n)]:
            bad.append(("saving_changed_the_source", None, o.get("root")))
        if bad:
            rep.violation(dict(sig0, kind="mismatch", field=bad[0][0]), {"case": rec, "observed": o, "mismatches": bad[:3]})
        else:
            nok += 1
            if rec["ne"] >= 2 and rec["path"]:
                nontrivial.add(json.dumps([rec["root"], rec["path"]]))
    rep.cov["evaluations"] += len(vexps)
    rep.cov["traces_validated_against_impl"] += nok
    rep.cov["samples"].append({"view_case": vexps[len(vexps) // 2], "observed": obs.get(len(vexps) // 2)})
    vlib.log("C17 views: %d view round trips x 3 archives x 2 target layouts, %d agree" % (len(vexps), nok))
    rep.cov["distinct_nontrivial"] = len(nontrivial)
    rep.assumptions = ["libboost_serialization 1.83 text/binary/XML archives; the token order is read from the XML archive (<first>/<last>/<item>/<elem> in document order)",
                       "empty arrays are compared as the library reports them (sizes of the original vs sizes of the loaded array)",
                       "nested-array element types and D=0 are not exercised"]
    return rep.finish(rule="Serialization.tla: every array (shape, index bases) x prior state of the target (empty / same extents / other extents) x "
                      "element type x archive kind; views: every ViewAlgebra view saved and loaded into a fresh array's view and into a view "
                      "with rotated memory layout; non-trivial = >= 2 elements", exhaustive=True)
