"""C12 -- projection views transform, cast or reinterpret exactly element by element."""
import json
import os

import vlib
from checks import views

CASTS = ["member_a", "member_b", "reint_int", "reint_short2", "static_const", "const_cast", "as_const", "transformed_a1",
         "transformed_refb", "convert_array", "member_a_const", "reint_int_const", "reint_short2_const",
         "member_b_const", "member_a_rv", "member_b_rv", "reint_int_rv", "reint_short2_rv"]
REC3_CASTS = ["member_a", "member_b", "member_a_const", "member_b_rv", "static_const", "as_const", "convert_array", "reint_pair", "reint_pair_const", "reint_pair_rv"]
POST = ["rotated", "unrotated", "reversed", "strided", "dropped", "transposed", "index"]
OPS = [o for o in views.ALL_OPS if o != "broadcast"]


def consts(D, ext, depth, maxpost, bases="BasesZero"):
    return {"MaxD": D, "MaxExt": ext, "MaxDepth": depth, "MaxDim": 4, "Bases": vlib.Sub(bases), "OpNames": set(OPS),
            "ParenArgs": 3, "ParenLean": True, "OneDimQuirk": False, "Emit": True, "Casts": set(CASTS), "PostOps": set(POST), "MaxPost": maxpost}


def jline(pid, rec):
    base = views.program_line(pid, rec).split()
    parts = ["J"] + base[1:] + [rec["cast"], str(len(rec["post"]))]
    for o in rec["post"]:
        parts += [o["op"], str(len(o["args"]))] + [str(a) for a in o["args"]]
    return " ".join(parts) + "\n"


def run(tier):
    rep = vlib.Report("C12", tier)
    wd = vlib.workdir("c12")
    exe = os.path.join(wd, "replay_projection")
    exe3 = os.path.join(wd, "replay_projection_rec3")
    ok, text = vlib.compile_cpp(os.path.join(vlib.HARNESS, "replay_projection.cpp"), exe, std="c++20")
    ok3, text3 = vlib.compile_cpp(os.path.join(vlib.HARNESS, "replay_projection.cpp"), exe3, flags=["-DVERIF_REC3"], std="c++20")
    if not ok or not ok3:
        raise vlib.Broken("replay_projection.cpp does not compile:\n" + (text if not ok else text3)[-3000:])
    # three-dimensional roots under every composition of up to three dimension permutations, then a cast (rank 4 results included)
    perm = consts(3, 2, 3, 0)
    perm["OpNames"] = {"rotated", "unrotated", "transposed"}
    # records of three shorts (6 bytes) reinterpreted as pairs of shorts (4 bytes) on views whose strides are all even
    rec3 = consts(2, 4, 3, 0)
    rec3["OpNames"] = {"strided", "rotated", "unrotated"}
    rec3["Casts"] = set(REC3_CASTS)
    rec3["RecUnits"] = vlib.Sub("RecUnits3")
    plan = [("c12_d2", consts(2, 3, 1, 1)), ("c12_d3", consts(3, 2, 1, 1)), ("c12_d2_bases", consts(2, 2, 1, 0, "BasesMixed")), ("c12_d3_perm", perm), ("c12_rec3", rec3)]
    if tier == "thorough":
        plan = [("c12_d2", consts(2, 3, 2, 2)), ("c12_d3", consts(3, 2, 2, 1)), ("c12_d3e3", consts(3, 3, 1, 2)), ("c12_d2_bases", consts(2, 3, 1, 1, "BasesMixed")), ("c12_d3_perm", perm), ("c12_rec3", rec3)]
    per_cast = rep.cov.setdefault("per_cast", {})
    nontrivial = set()
    for name, c in plan:
        cfg = os.path.join(wd, name + ".cfg")
        vlib.write_cfg(cfg, spec="PSpec", constants=c, invariants=["PInBounds"], view="PVW", constraints=["PEmitC"])
        res = vlib.run_tlc("Projection", cfg, name)
        rep.add_tlc(res)
        if res.violated:
            rep.violation({"kind": "design", "invariant": res.violated}, {"tlc": res.error_text})
            continue
        exps, lines, seen = [], [], set()
        for rec in vlib.emitted(res.out_path):
            k = json.dumps([rec["root"], rec["path"], rec["cast"], rec["post"]], sort_keys=True)
            if k in seen:
                continue
            seen.add(k)
            exps.append(rec)
            lines.append(jline(len(exps) - 1, rec))
        os.remove(res.out_path)
        obs, crashes = vlib.run_replayer_chunks(exe3 if name == "c12_rec3" else exe, lines, wd, name)
        crashed = {cr["id"]: cr for cr in crashes if cr["id"] is not None}
        nok = unsup = 0
        for pid, exp in enumerate(exps):
            o = obs.get(pid)
            sig0 = {"cast": exp["cast"], "pre": "+".join(p["op"] for p in exp["path"]) or "root", "post": "+".join(p["op"] for p in exp["post"]) or "none"}
            if pid in crashed or o is None:
                rep.violation(dict(sig0, kind="crash"), {"case": exp, "crash": crashed.get(pid)})
                continue
            if o.get("st") == "unsupported":
                unsup += 1
                rep.notes.setdefault("unsupported", {})
                rep.notes["unsupported"][o.get("why")] = rep.notes["unsupported"].get(o.get("why"), 0) + 1
                continue
            per_cast[exp["cast"]] = per_cast.get(exp["cast"], 0) + 1
            if o.get("st") == "abort":
                rep.violation(dict(sig0, kind="abort", line=o.get("abort", {}).get("line")), {"case": exp, "observed": o})
                continue
            bad = []
            if o.get("shape") != exp["shape"] and not (exp["cast"] == "convert_array" and not exp["vals"]):   # an ARRAY made from an element-free view may normalise its extents
                bad.append(("shape", exp["shape"], o.get("shape")))
            if "units" in o and o["units"] != exp["units"]:
                bad.append(("designated_storage", exp["units"], o["units"]))
            if "units_by_index" in o:
                bad.append(("elements_vs_indexing", o.get("units"), o["units_by_index"]))
            if o.get("vals") != exp["vals"]:
                bad.append(("values", exp["vals"], o.get("vals")))
            # (a view without elements may report extents no array can have, e.g. 2x0: its copy is only asked to be element-free)
            if "copy_vals" in o and (o["copy_vals"] != exp["vals"] or (exp["vals"] and o.get("copy_shape") != exp["shape"])):
                bad.append(("array_constructed_from_the_view", [exp["shape"], exp["vals"]], [o.get("copy_shape"), o["copy_vals"]]))
            if exp["cast"] == "transformed_refb":
                # write-through: exactly the designated b members changed, in canonical order
                n = 1
                for s in exp["root"]["shape"]:
                    n *= s
                want = [200 + c for c in range(n)]
                for k, u in enumerate(exp["units"]):
                    want[u // 2] = 7000 + k
                if o.get("root_b_after") != want:
                    bad.append(("write_through", want, o.get("root_b_after")))
            if exp["cast"] == "convert_array" and o.get("shares_storage") is not False:
                bad.append(("converted_array_shares_storage", False, o.get("shares_storage")))
            if bad:
                rep.violation(dict(sig0, kind="mismatch", field=bad[0][0]), {"case": exp, "observed": o, "mismatches": bad[:3]})
            else:
                nok += 1
                if len(exp["units"]) >= 2:
                    nontrivial.add(json.dumps([exp["root"], exp["path"], exp["cast"], exp["post"]], sort_keys=True))
        rep.cov["evaluations"] += len(exps)
        rep.cov["traces_validated_against_impl"] += nok
        if len(rep.cov["samples"]) < 3 and exps:
            pid = len(exps) // 2
            rep.cov["samples"].append({"case": exps[pid], "observed": obs.get(pid)})
        vlib.log("C12 %s: TLC %d generated / %d distinct; %d cases, %d agree, %d unsupported" % (name, res.generated, res.distinct, len(exps), nok, unsup))
    rep.cov["distinct_nontrivial"] = len(nontrivial)
    missing = [c for c in CASTS + REC3_CASTS if per_cast.get(c, 0) == 0]
    if missing:
        raise vlib.Broken("casts never exercised: %s" % missing)
    rep.assumptions = ["records are {short a; short b;}; storage is addressed in units of one short; little-endian for the 32-bit reinterpretation",
                       "const_array_cast/as_const are not provided for 1-D views and are exercised for D >= 2 only",
                       "real/imag projections of complex arrays (blas/numeric.hpp) are compositions of these casts and are exercised with the BLAS adaptor (C13)"]
    return rep.finish(rule="Projection.tla: view program (<= MaxDepth) ; cast ; view operations on the projected view (<= MaxPost); the prescribed "
                      "shape, designated storage unit of every element and value read are compared with the real views; non-trivial = >= 2 elements",
                      exhaustive=True)
