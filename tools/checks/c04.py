"""C04 -- owning arrays have value semantics."""
import vlib
from checks import arrays


def consts(D, ext, depth, trivial, ops, slots=2):
    return {"DimD": D, "Slots": set(range(1, slots + 1)), "MaxExt": ext, "ABases": vlib.Sub("ABasesZero"), "MaxDepth": depth,
            "OpSet": set(ops), "TrivialT": trivial, "AEmit": True,
            "AllocIds": set(), "POCCA": False, "POCMA": False, "POCS": False, "AlwaysEq": False}


def run(tier):
    rep = vlib.Report("C04", tier)
    wd = vlib.workdir("c04")
    exe_int = arrays.build(wd, 0)
    exe_str = arrays.build(wd, 1)
    ops = arrays.C04_OPS
    d0ops = ["ctor_default", "ctor_ext", "ctor_fill", "ctor_copy", "ctor_move", "assign_copy", "assign_move", "self_assign", "swap", "write", "destroy"]
    plan = [("c04_d0_int", consts(0, 0, 4, True, d0ops), exe_int), ("c04_d0_str", consts(0, 0, 3, False, d0ops), exe_str),
            ("c04_d1_int", consts(1, 3, 3, True, ops), exe_int),
            ("c04_d2_int", consts(2, 2, 3, True, ops), exe_int),
            ("c04_d2_str", consts(2, 2, 2, False, ops), exe_str),
            ("c04_d3_int", consts(3, 2, 2, True, ops), exe_int),
            # observable moves (std::string): two arrays, then an assignment from a named / temporary view of one to the other
            ("c04_d2_str_views", consts(2, 2, 3, False, ["ctor_iota", "ctor_fill", "assign_view", "assign_rview", "assign_copy", "write", "ctor_ref", "ctor_rref", "ctor_view"]), exe_str),
            # four-step histories over the value-transferring operations (move, then swap with the moved-from partner, ...)
            ("c04_d1_moves4", consts(1, 2, 4, True, ["ctor_iota", "ctor_default", "ctor_move", "assign_move", "assign_copy", "swap", "destroy"]), exe_int)]
    if tier == "thorough":
        plan += [("c04_d1_str", consts(1, 3, 3, False, ops), exe_str),
                 ("c04_d3_str", consts(3, 2, 2, False, ops), exe_str),
                 ("c04_d4_int", consts(4, 2, 2, True, ops), exe_int),
                 ("c04_d2_int3", consts(2, 3, 3, True, ops), exe_int),
                 ("c04_d2_3slots", consts(2, 2, 3, True, ops, slots=3), exe_int)]
    for name, c, exe in plan:
        arrays.run_config(rep, "C04", name, c, exe, wd, len(c["Slots"]))
    missing = [o for o in ops if rep.cov.get("per_last_op", {}).get(o, 0) == 0]
    if missing:
        raise vlib.Broken("operations never exercised: %s" % missing)
    rep.assumptions = ["element types int (trivial) and std::string (non-trivial); values unspecified by the library (new elements of trivial types) are not compared",
                       "zero-size arrays are compared on num_elements()/is_empty() only (the library collapses their sizes)"]
    return arrays.finish(rep, "every transition of ArrayOps.tla (pool of 2 array variables, all constructor/assignment/move/swap/decay/"
                         "write/destroy operations with all extents 0..MaxExt, source views through 8 layout wrappers) is one history; "
                         "non-trivial = history of >= 2 operations leaving an array of >= 2 elements; distinct = distinct histories", True)
