"""C15 -- the FFTW adaptor equals the direct DFT on any strided views and dimension subset.

FftwGen.tla enumerates the case lattice (shape x mask x sign x API form x input layout x output layout);
harness/replay_fftw.cpp executes each case on the real adaptor and records the cells of both views and
the whole store before/after; Fftw.tla (trace monitor) evaluates the direct DFT on the recorded logical
input and checks value equality, input unchanged, frame and the round trip.  Python here is plumbing:
building replayer lines, equality of prescribed and observed view cells, turning monitor complaints
into violations."""
import json
import os
import subprocess
import threading
import time
from concurrent.futures import ThreadPoolExecutor

import vlib

LOPS_Q = ["rot", "unrot", "transp", "sub", "str2", "col"]
LOPS_T = LOPS_Q + ["rev"]
LAZY = ["lazy", "lazy_fwd", "lazy_all"]      # front ends of adaptors/fft.hpp
OUT_MODES = ["dft", "fb", "plan", "round"] + LAZY
IN_MODES = ["inplace", "inplace_b", "same"]
ALL_MODES = OUT_MODES + IN_MODES


def plan_for(tier):
    """list of (name, constants) generator runs"""
    def c(shapes, modes, lops, each, tot):
        return {"ShapeCodes": set(shapes), "Modes": set(modes), "LOps": set(lops), "MaxEach": each, "MaxSum": tot, "Emit": True}
    if tier == "quick":
        return [
            ("c15_main", c([1, 2, 3, 4, 5, 24, 44, 32, 14, 234, 412], ["dft"], LOPS_T, 2, 2)),
            ("c15_api", c([4, 3, 42, 23, 243, 422], ["fb", "plan", "round"] + LAZY, LOPS_T, 1, 2)),
            ("c15_inpl", c([2, 4, 3, 24, 43, 234, 421], IN_MODES, LOPS_T, 2, 2)),
        ]
    return [
        ("c15_main12", c([1, 2, 3, 4, 5, 6, 11, 12, 21, 22, 24, 42, 44, 23, 32, 34, 43, 14, 41, 52, 26, 33], ["dft"], LOPS_T, 2, 3)),
        ("c15_main3", c([234, 412, 442, 124, 323, 222, 144, 325, 261, 416], ["dft"], LOPS_T, 2, 2)),
        ("c15_main3d", c([243, 422], ["dft"], LOPS_Q, 2, 4)),
        ("c15_main4", c([2342, 1224, 4122, 2222, 3214], ["dft"], LOPS_T, 2, 2)),
        ("c15_api", c([4, 3, 5, 6, 42, 23, 64, 25, 243, 422, 324, 2242, 3221], ["fb", "plan", "round"] + LAZY, LOPS_T, 2, 2)),
        ("c15_inpl", c([1, 2, 4, 3, 5, 6, 24, 43, 44, 62, 234, 421, 442, 2243, 4221], IN_MODES, LOPS_T, 2, 2)),
    ]


def layout_tokens(L):
    t = [str(len(L["root"]))] + [str(x) for x in L["root"]] + [str(len(L["prims"]))]
    for o in L["prims"]:
        t += [o["op"], str(len(o["args"]))] + [str(a) for a in o["args"]]
    return t


def case_line(pid, rec, seed):
    t = ["C", str(pid), str(seed), rec["mode"], str(rec["sign"]), str(len(rec["sh"]))]
    t += [str(x) for x in rec["sh"]] + [str(x) for x in rec["which"]]
    t += ["I"] + layout_tokens(rec["in"]) + ["O"] + layout_tokens(rec["out"])
    return " ".join(t) + "\n"


def rebuild_class(rec, o):
    """The lazy range of fft.hpp rebuilds both operands from iterator pairs; the rebuilt leading size is only right when the
    leading stride equals the second extent (the known finding).  Classifies a lazy case for the violation signature."""
    if rec["mode"] not in LAZY or o is None or "istr" not in o or len(rec["sh"]) < 2:
        return None
    return "exact" if o["istr"][0] == rec["sh"][1] and o["ostr"][0] == rec["sh"][1] else "wrong"


def sig_of(rec, **kw):
    s = {"mode": "lazy" if rec["mode"] in LAZY else rec["mode"], "api": rec["mode"], "D": len(rec["sh"]), "in": "+".join(rec["in"]["prog"]) or "root",
         "out": "+".join(rec["out"]["prog"]) or "root", "which": "".join(str(x) for x in rec["which"])}
    s.update({k: v for k, v in kw.items() if v is not None})
    return s


def run(tier):
    rep = vlib.Report("C15", tier)
    wd = vlib.workdir("c15")
    exe = os.path.join(wd, "replay_fftw")
    comp = {}

    probes = [os.path.join(wd, "replay_fftw_probe%d" % n) for n in (1, 2)]

    def build():
        # the interposer is a C translation unit of its own (it must not see <fftw3.h>)
        obj = os.path.join(wd, "replay_fftw_interpose.o")
        p = subprocess.run(["gcc", "-O1", "-c", os.path.join(vlib.HARNESS, "replay_fftw_interpose.c"), "-o", obj],
                           stdout=subprocess.PIPE, stderr=subprocess.STDOUT, text=True)
        if p.returncode != 0:
            comp["res"], comp["probes"] = (False, p.stdout), []
            return
        src = os.path.join(vlib.HARNESS, "replay_fftw_probe.cpp")
        r = vlib.compile_many([
            (os.path.join(vlib.HARNESS, "replay_fftw.cpp"), exe, ["-DVERIF_FFTW_INTERPOSE"], [obj, "-Wl,--no-as-needed", "-lfftw3", "-ldl"]),
            (src, probes[0], ["-DVERIF_PROBE=1"], ["-lfftw3"]), (src, probes[1], ["-DVERIF_PROBE=2"], ["-lfftw3"])])
        comp["res"], comp["probes"] = r[0], r[1:]
    th = threading.Thread(target=build)
    th.start()

    ok, text = vlib.sany("Fftw")
    if not ok:
        raise vlib.Broken("Fftw.tla rejected by SANY:\n" + text[-2000:])
    plan = plan_for(tier)
    def generate(item):
        name, consts = item
        cfg = os.path.join(wd, name + ".cfg")
        vlib.write_cfg(cfg, spec="Spec", constants=consts, invariants=["CaseOK"], constraints=["EmitC"])
        res = vlib.run_tlc("FftwGen", cfg, name, workers=max(4, vlib.NPROC // 2), heap="6g")
        if res.violated:
            raise vlib.Broken("generator design check %s violated in %s:\n%s" % (res.violated, name, res.error_text[-1500:]))
        cases = list(vlib.emitted(res.out_path))
        os.remove(res.out_path)
        if not cases:
            raise vlib.Broken("generator %s emitted no case" % name)
        return name, cases, res
    gens = []
    t0 = time.time()
    with ThreadPoolExecutor(max_workers=3) as ex:
        for name, cases, res in ex.map(generate, plan):
            rep.add_tlc(res)
            gens.append((name, cases))
            rep.cov.setdefault("per_generator", {})[name] = len(cases)
            vlib.log("C15 %s: %d cases in %.0fs" % (name, len(cases), res.wall))
    t1 = time.time()
    th.join()
    if not comp["res"][0]:
        raise vlib.Broken("replay_fftw.cpp does not compile:\n" + comp["res"][1][-3000:])

    exps, lines = [], []
    for name, cases in gens:
        for rec in cases:
            exps.append(rec)
            lines.append(case_line(len(exps) - 1, rec, vlib.seed()))
    # the lazy front end is a known finding that writes out of bounds: its cases run one per (forked) process
    frail = [k for k, rec in enumerate(exps) if rec["mode"] in LAZY]
    obs, crashes = vlib.run_replayer_chunks(exe, [lines[k] for k in range(len(lines)) if exps[k]["mode"] not in LAZY], wd, "c15")
    if frail:
        obs2, crashes2 = vlib.run_replayer_chunks(exe, [lines[k] for k in frail], wd, "c15_lazy", args=["isolate"])
        obs.update(obs2)
        crashes += crashes2
    t2 = time.time()
    for cr in crashes:
        if cr["id"] is None:
            raise vlib.Broken("replayer failed: " + cr["stderr"][-800:])
    crashed = {cr["id"]: cr for cr in crashes}
    # front ends whose instantiation is itself the observation (harness/replay_fftw_probe.cpp): a compile failure is a
    # violation of kind "compile"; a probe that compiles contributes one record to the trace
    flat1 = {"prog": [], "root": [4], "prims": [], "cells": [0, 1, 2, 3]}
    flat2 = {"prog": [], "root": [2, 2], "prims": [], "cells": [0, 1, 2, 3]}
    precs = [{"sh": [4], "mode": "lazy", "which": [1], "sign": -1, "in": flat1, "out": flat1},
             {"sh": [2, 2], "mode": "lazy_bwd", "which": [1, 1], "sign": 1, "in": flat2, "out": flat2}]
    for n, prec in enumerate(precs):
        okp, textp = comp["probes"][n]
        if not okp:
            errs = [l for l in textp.splitlines() if "error" in l][:6]
            s = sig_of(prec, kind="compile")
            s["mode"] = "lazy"
            rep.violation(s, {"case": prec, "source": "harness/replay_fftw_probe.cpp -DVERIF_PROBE=%d" % (n + 1), "compiler": errs})
            continue
        p = subprocess.run([probes[n]], stdout=subprocess.PIPE, stderr=subprocess.PIPE, timeout=60)
        exps.append(dict(prec, mode="lazy"))
        lines.append("(harness/replay_fftw_probe.cpp -DVERIF_PROBE=%d)\n" % (n + 1))
        try:
            o = json.loads(p.stdout.decode())
            o.update({"id": len(exps) - 1, "st": "ok", "abase": 0, "bbase": 4})
            obs[len(exps) - 1] = o
        except ValueError:
            crashed[len(exps) - 1] = {"id": len(exps) - 1, "rc": p.returncode, "stderr": p.stderr.decode(errors="replace")[-800:]}

    # one JVM per trace file, NPROC at a time; a monitor holds its whole file in memory, so files stay small
    nchunks = max(vlib.NPROC, (len(exps) + 5999) // 6000)
    tfiles = [os.path.join(wd, "c15_trace_%d.ndjson" % k) for k in range(nchunks)]
    outs = [open(t, "w") for t in tfiles]
    per_mode, per_lop, per_D, per_mask = {}, {}, {}, {}
    weight = [0] * nchunks
    ntr = unsup = 0
    traced = []
    for pid, rec in enumerate(exps):
        if pid in crashed:
            rep.violation(sig_of(rec, kind="crash"), {"case": rec, "line": lines[pid], "crash": crashed[pid]})
            continue
        o = obs.get(pid)
        if o is None:
            rep.violation(sig_of(rec, kind="missing"), {"case": rec, "line": lines[pid]})
            continue
        st = o.get("st")
        if st == "unsupported":
            unsup += 1
            rep.cov.setdefault("unsupported", {}).setdefault(o.get("why", "?"), 0)
            rep.cov["unsupported"][o.get("why", "?")] += 1
            continue
        if st in ("abort", "exception", "died"):
            a = o.get("abort", {})
            rep.violation(sig_of(rec, kind=st, file=a.get("file"), line=a.get("line"), rebuild=rebuild_class(rec, o)),
                          {"case": rec, "line": lines[pid], "observed": o})
            continue
        # harness cross-check (not the oracle): the cells observed through operator[] are the ones MultiSem prescribes
        pin = [x + o["abase"] for x in rec["in"]["cells"]]
        inpl = rec["mode"] in IN_MODES
        pout = pin if inpl else [x + o["bbase"] for x in rec["out"]["cells"]]
        if o["icells"] != pin or o["ocells"] != pout:
            rep.drift.append({"what": "view cells differ from MultiSem", "case": sig_of(rec), "prescribed": [pin, pout], "observed": [o["icells"], o["ocells"]]})
        o = {k: v for k, v in o.items() if k not in ("abase", "bbase", "st", "allocs", "deallocs", "istr", "ostr")}
        n = len(o["icells"])
        k = min(range(nchunks), key=lambda j: weight[j])
        weight[k] += n * n + 40
        outs[k].write(json.dumps(o, separators=(",", ":")) + "\n")
        ntr += 1
        traced.append(pid)
    for f in outs:
        f.close()
    t3 = time.time()
    comps, states = vlib.validate_traces("Fftw", "MSpec", tfiles, "c15_mon", heap="2g")
    rep.cov["states"] += states
    rep.cov["transitions"] += states
    rep.cov["phase_seconds"] = {"generate": round(t1 - t0, 1), "replay": round(t2 - t1, 1), "monitor": round(time.time() - t3, 1)}
    vlib.log("C15 phases: %s" % rep.cov["phase_seconds"])
    badids = set()
    ndrift = 0
    for cpl in comps:
        rec = exps[cpl["id"]]
        if "drift" in cpl:      # code-shaped expectation (the intercepted guru calls): recorded, never a verdict
            ndrift += 1
            if len(rep.drift) < 20:
                rep.drift.append({"what": cpl["drift"], "case": sig_of(rec), "line": lines[cpl["id"]], "events": cpl.get("ev")})
            continue
        badids.add(cpl["id"])
        rep.violation(sig_of(rec, kind="contract", what=cpl["bad"], step=cpl["step"], sign=rec["sign"], rebuild=rebuild_class(rec, obs.get(cpl["id"]))),
                      {"case": rec, "line": lines[cpl["id"]], "seed": vlib.seed(), "observed": obs.get(cpl["id"]), "complaint": cpl})
    # coverage counts: only cases whose record the monitor accepted
    nontrivial = 0
    per_arith = {}

    def bump(d, k):
        d[k] = d.get(k, 0) + 1
    for pid in traced:
        if pid in badids:
            continue
        rec = exps[pid]
        bump(per_mode, rec["mode"])
        bump(per_D, len(rec["sh"]))
        bump(per_mask, "all" if all(rec["which"]) else "none" if not any(rec["which"]) else "mixed")
        bump(per_arith, "sign%+d" % rec["sign"])
        bump(per_arith, "exact" if all(n in (1, 2, 4) for n, w in zip(rec["sh"], rec["which"]) if w) else "fixed_point")
        for lop in set(rec["in"]["prog"]) | set(rec["out"]["prog"]):
            bump(per_lop, lop)
        if any(rec["which"]) and (rec["in"]["prog"] or rec["out"]["prog"]) and len(rec["in"]["cells"]) >= 2:
            nontrivial += 1
    rep.cov["per_arithmetic"] = per_arith
    rep.cov["evaluations"] = len(exps)
    rep.cov["traces_validated_against_impl"] = ntr - len(badids)
    rep.cov["distinct_nontrivial"] = nontrivial
    rep.cov["per_mode"] = per_mode
    rep.cov["per_layout_op"] = per_lop
    rep.cov["per_dimensionality"] = per_D
    rep.cov["per_mask_class"] = per_mask
    if exps:
        pid = len(exps) // 2
        rep.cov["samples"].append({"case": exps[pid], "line": lines[pid]})
    if ndrift:
        vlib.log("MODEL-DRIFT Fftw.tla GuruOK: %d adaptor calls whose intercepted FFTW calls differ from the code-shaped expectation "
                 "(not a verdict); first: %s" % (ndrift, json.dumps(rep.drift[0].get("case")) if rep.drift else ""))
    rep.cov["guru_drift"] = ndrift
    vlib.log("C15: %d cases generated by FftwGen.tla, %d records validated by Fftw.tla, %d complaints, %d unsupported, %d drift; per mode %s" %
             (len(exps), ntr, len(comps) - ndrift, unsup, len(rep.drift), per_mode))
    for t in tfiles:
        os.remove(t)
    rep.cov["samples"] = [{"line": x["line"], "case": sig_of(x["case"])} for x in rep.cov["samples"]]
    if rep.violations:      # a verdict exists; the vacuity floors below are about runs that found nothing
        return finish(rep)
    # no vacuity
    want_modes = set()
    for _, consts in plan:
        want_modes |= set(consts["Modes"])
    missing = [m for m in sorted(want_modes) if per_mode.get(m, 0) == 0]
    if missing:
        raise vlib.Broken("modes never exercised: %s" % missing)
    lops = LOPS_T
    missing = [x for x in lops if per_lop.get(x, 0) == 0]
    if missing:
        raise vlib.Broken("layout operations never exercised: %s" % missing)
    maxd = 3 if tier == "quick" else 4
    missing = [d for d in range(1, maxd + 1) if per_D.get(d, 0) == 0]
    if missing:
        raise vlib.Broken("dimensionalities never exercised: %s" % missing)
    if min(per_mask.get(k, 0) for k in ("all", "none", "mixed")) == 0:
        raise vlib.Broken("mask classes never exercised: %s" % per_mask)
    if min(per_arith.get(k, 0) for k in ("exact", "fixed_point", "sign-1", "sign+1")) == 0:
        raise vlib.Broken("arithmetic classes never exercised: %s" % per_arith)
    floor = 4000 if tier == "quick" else 20000
    if ntr - len(badids) < floor:
        raise vlib.Broken("only %d cases validated (floor %d)" % (ntr - len(badids), floor))
    if unsup > len(exps) // 10:
        raise vlib.Broken("%d of %d cases unsupported by the replayer" % (unsup, len(exps)))
    return finish(rep)


def finish(rep):
    rep.assumptions = [
        "data: Gaussian integers with parts in -3..3 drawn from VERIF_SEED; transformed lengths 1, 2, 4 are compared exactly, "
        "lengths 3, 5, 6 within 2^-6 of the 1-norm of the transformed line (fixed point, scale 256)",
        "the logical contents of a view are read through the cells its own operator[] designates; they are cross-checked (drift only) "
        "with the cells MultiSem.tla prescribes for the layout program",
        "in-place means the same view as input and output (the in-place overload, or the same view passed twice); partially overlapping "
        "or same-memory-different-layout operands are outside FFTW's contract and not generated",
        "the 1-D case of the lazy multi::fft::dft range and multi::fft::dft_backward(which, in) (adaptors/fft.hpp) are separate probes "
        "(harness/replay_fftw_probe.cpp): a compile failure is reported as a violation of kind 'compile'",
    ]
    return rep.finish(level="model_checking",
                      rule="FftwGen.tla enumerates shape x mask x sign x API form x input layout x output layout (layout programs of bounded length "
                      "over rot/unrot/transp/rev/sub/str2/col); each case runs once on pseudo-random Gaussian-integer data; Fftw.tla validates "
                      "value equality with the direct DFT, input unchanged, frame (whole store with guard cells) and the round trip; "
                      "non-trivial = at least one transformed dimension, a derived view, >= 2 elements",
                      exhaustive=False)


def replay(path):
    """bin/vcheck C15 --replay <file>: re-executes the recorded case on the current tree and re-validates it with Fftw.tla"""
    d = json.load(open(path))
    line = d["detail"].get("line", "")
    if not line.startswith("C "):
        vlib.log("replay: this record has no replayer line (%s)" % d.get("sig"))
        return 1
    wd = vlib.workdir("c15_replay")
    exe = os.path.join(wd, "replay_fftw")
    ok, text = vlib.compile_cpp(os.path.join(vlib.HARNESS, "replay_fftw.cpp"), exe, libs=["-lfftw3"])
    if not ok:
        raise vlib.Broken("replay_fftw.cpp does not compile:\n" + text[-3000:])
    obs, crashes = vlib.run_replayer_chunks(exe, [line], wd, "c15_replay", nchunks=1, args=["isolate"])
    pid = int(line.split()[1])
    o = obs.get(pid)
    if crashes or o is None or o.get("st") != "ok":
        print("VIOLATION property=C15 replay=%s" % path)
        vlib.log("  observed: %s" % (json.dumps(o)[:600] if o else crashes))
        return 1
    o = {k: v for k, v in o.items() if k not in ("abase", "bbase", "st", "allocs", "deallocs", "istr", "ostr")}
    tf = os.path.join(wd, "trace.ndjson")
    with open(tf, "w") as f:
        f.write(json.dumps(o) + "\n")
    comps, _ = vlib.validate_traces("Fftw", "MSpec", [tf], "c15_replay_mon")
    comps = [c for c in comps if "drift" not in c]
    if comps:
        print("VIOLATION property=C15 replay=%s" % path)
        vlib.log("  complaint: %s" % json.dumps(comps[0]))
        return 1
    vlib.log("C15 replay: the case is accepted by Fftw.tla on this tree")
    return 0
