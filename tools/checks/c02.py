"""C02 -- iterators, cursors and flat element ranges obey the random-access laws."""
import json
import os

import vlib
from checks import views


TWIN_OPS = {"rotated", "transposed", "strided", "taked", "dropped", "reversed", "sliced", "paren"}


def base_constants():
    return {"MaxD": 3, "MaxExt": 3, "MaxDepth": 1, "MaxDim": 5, "Bases": vlib.Sub("BasesZero"), "OpNames": set(views.ALL_OPS),
            "ParenArgs": 3, "ParenLean": True, "OneDimQuirk": False, "Emit": True,
            "Kinds": {"outer", "elems"}, "Offsets": vlib.Sub("OffsetsSmall"), "MaxProg": 2, "MaxN": 6, "Merge": True, "TwinOps": set()}


def runs(tier):
    r = []
    # edge coverage: 3-D roots with extents <= 2 and 2-D roots with extents <= 3 (quick); all roots D <= 3, extents <= 3 (thorough)
    if tier == "thorough":
        r.append(("c02_edges", base_constants(), None))
    else:
        ca = base_constants(); ca.update({"MaxD": 3, "MaxExt": 2})
        r.append(("c02_edges_d3e2", ca, None))
        cb = base_constants(); cb.update({"MaxD": 2, "MaxExt": 3})
        r.append(("c02_edges_d2e3", cb, None))
    # path coverage: every program of length <= 3 (no merging) on 2-D roots and their depth-1 views
    c2 = base_constants(); c2.update({"MaxD": 2, "MaxExt": 2, "Merge": False, "MaxProg": 2, "MaxN": 4})
    r.append(("c02_paths", c2, None))
    # four-dimensional roots under every composition of up to three dimension permutations (the middle dimensions exchanged ...)
    cp = base_constants(); cp.update({"MaxD": 4, "MaxExt": 2, "MaxDepth": 3, "MaxProg": 1, "MaxN": 16, "Kinds": {"elems", "outer"},
                                      "OpNames": {"rotated", "unrotated", "transposed"}, "Offsets": vlib.Sub("OffsetsOne")})
    r.append(("c02_d4_perm", cp, None))
    # iterators re-seated between a view and a twin view of the same root (one more operation away)
    ct = base_constants(); ct.update({"MaxD": 2, "MaxExt": 3, "MaxDepth": 0, "TwinOps": TWIN_OPS, "MaxProg": 2, "Offsets": vlib.Sub("OffsetsOne")})
    r.append(("c02_twin", ct, None))
    if tier == "thorough":
        c3 = base_constants(); c3.update({"MaxDepth": 2, "MaxExt": 2, "MaxN": 8, "Offsets": vlib.Sub("OffsetsWide")})
        r.append(("c02_edges_depth2", c3, None))
        c4 = base_constants(); c4.update({"MaxD": 2, "MaxExt": 3, "MaxDepth": 0, "Merge": False, "MaxProg": 3, "MaxN": 9, "Offsets": vlib.Sub("OffsetsOne")})
        r.append(("c02_paths3", c4, None))
        c5 = base_constants(); c5.update({"MaxDepth": 2, "MaxExt": 3, "MaxN": 9, "Merge": False, "MaxProg": 12, "Offsets": vlib.Sub("OffsetsWide")})
        r.append(("c02_simulate", c5, {"simulate": 300, "depth": 14, "workers": 8}))   # num is per worker; every step of every behaviour is a program
        c6 = base_constants(); c6.update({"MaxD": 2, "MaxExt": 2, "MaxDepth": 1, "TwinOps": TWIN_OPS, "MaxProg": 2, "Offsets": vlib.Sub("OffsetsOne")})
        r.append(("c02_twin_depth1", c6, None))
        c7 = base_constants(); c7.update({"MaxD": 3, "MaxExt": 2, "MaxDepth": 0, "TwinOps": TWIN_OPS, "MaxProg": 3, "Offsets": vlib.Sub("OffsetsOne")})
        r.append(("c02_twin_d3_prog3", c7, None))
    return r


def line(pid, rec):
    base = views.program_line(pid, rec).split()
    parts = ["I"] + base[1:] + [rec["kind"], str(rec["pos"][0]), str(rec["pos"][1]), str(len(rec["prog"]))]
    for o in rec["prog"]:
        parts += [o["op"], str(o["r"]), str(o["s"]), str(o["n"])]
    tw = rec["twin"]
    parts += ["T", "0" if tw["op"] == "none" else "1", str(rec["rng"][0]), str(rec["rng"][1])]
    if tw["op"] != "none":
        parts += [tw["op"], str(len(tw["args"]))] + [str(a) for a in tw["args"]]
    return " ".join(parts) + "\n"


def compare(exp, o):
    if o is None:
        return [("missing", None, None)]
    if o.get("st") == "abort":
        a = o.get("abort", {})
        return [("abort:%s" % a.get("kind"), "ok", {"at": o.get("at"), "abort": a})]
    if o.get("st") != "ok":
        return [("status", "ok", o.get("st"))]
    for k, v in o.items():
        if isinstance(v, dict) and "abort" in v:
            return [("abort_in:" + k, "ok", v)]
    n = exp["n"]
    p1, p2 = exp["pos"]
    bad = []
    # begin()/end() delimit exactly size() positions -- with the size the library itself reports, so that this is also
    # asked of views without elements (3x0), whose sizes the specification does not prescribe for owning arrays
    if exp["kind"] == "outer" and "size" in o and o.get("end_minus_begin") != o.get("size"):
        bad.append(("end-begin_vs_size()", o.get("size"), o.get("end_minus_begin")))
    if exp["empty"]:
        # zero-size corner (the library may collapse sizes): only begin()==end() for the flat range
        if exp["kind"] == "elems" and o.get("n") != 0:
            bad.append(("elements_begin_end", 0, o.get("n")))
        return bad

    def chk(name, want, got):
        if want != got:
            bad.append((name, want, got))
    n1, n2 = exp["ns"]
    same = exp["rng"][0] == exp["rng"][1]
    chk("end-begin", n, o.get("n"))
    chk("end-begin(range of register)", [n1, n2], o.get("ns"))
    chk("it-begin", [p1, p2], o.get("pos"))
    chk("end-it", [n1 - p1, n2 - p2], o.get("rem"))
    if same:   # iterators into different ranges are not comparable
        chk("r1-r2", p1 - p2, o.get("diff"))
        chk("comparisons", [int(p1 == p2), int(p1 != p2), int(p1 < p2), int(p1 <= p2), int(p1 > p2), int(p1 >= p2)], o.get("cmp"))
    chk("vs_begin_end", [int(p1 == 0), int(p1 == n1), int(0 < p1), int(p1 < n1), int(p2 == 0), int(p2 == n2), int(0 < p2), int(p2 < n2)], o.get("cmp_ends"))
    chk("deref_r1", exp["item"][0], o.get("item1"))
    chk("deref_r2", exp["item"][1], o.get("item2"))
    chk("it[n]_r1", exp["firsts_r"][0], o.get("firsts1"))
    chk("it[n]_r2", exp["firsts_r"][1], o.get("firsts2"))
    for k, (p, nk) in enumerate(((p1, n1), (p2, n2))):
        f = exp["firsts_r"][k]
        want = {"item": exp["item"][k], "next": [f[p + 1]] if p + 1 < nk else [], "prev": [f[p - 1]] if p > 0 and nk > 0 else [], "pos": p, "eq": 1}
        chk("converted_to_const_iterator_r%d" % (k + 1), want, o.get("conv%d" % (k + 1)))
    chk("copy_equal", 1, o.get("copy_eq"))
    chk("const_equal", 1, o.get("const_eq"))
    if exp["kind"] == "elems" and n > 0:
        pp = p1 if exp["rng"][0] == 0 else 0
        chk("elements()[k]_all", exp["firsts"], o.get("at_all"))
        chk("front", exp["firsts"][0], o.get("front"))
        chk("back", exp["firsts"][-1], o.get("back"))
        if pp < n:
            chk("elements[k]", exp["firsts"][pp], o.get("at_p1"))
    return bad


def run(tier):
    rep = vlib.Report("C02", tier)
    wd = vlib.workdir("c02")
    exe = os.path.join(wd, "replay_iters")
    ok, text = vlib.compile_cpp(os.path.join(vlib.HARNESS, "replay_iters.cpp"), exe)
    if not ok:
        raise vlib.Broken("replay_iters.cpp does not compile:\n" + text[-3000:])
    per_op = rep.cov.setdefault("per_last_op", {})
    nontrivial = set()
    for name, c, sim in runs(tier):
        cfg = os.path.join(wd, name + ".cfg")
        vlib.write_cfg(cfg, spec="ISpec", constants=c, invariants=["PosOK"], view="IVW", constraints=["IEmitC"])
        res = vlib.run_tlc("Iterators", cfg, name, **(sim or {}))
        rep.add_tlc(res)
        if res.violated:
            rep.violation({"kind": "design", "invariant": res.violated}, {"tlc": res.error_text})
            continue
        exps, lines = [], []
        seen = set()
        for rec in vlib.emitted(res.out_path):
            k = json.dumps([rec["root"], rec["path"], rec["kind"], rec["prog"], rec["twin"]], sort_keys=True)
            if k in seen:
                continue
            seen.add(k)
            rec["empty"] = (len(rec["firsts"]) == 0 and rec["n"] == 0) or any(f == -1 for f in rec["firsts"]) or 0 in rec["root"]["shape"]
            if rec["twin"]["op"] != "none" and not rec["empty"] and (0 in rec["ns"] or any(f == -1 for fr in rec["firsts_r"] for f in fr)):
                continue   # a twin without elements: nothing to re-seat into
            exps.append(rec)
            lines.append(line(len(exps) - 1, rec))
        if not exps:
            raise vlib.Broken("no iterator programs emitted by " + name)
        obs, crashes = vlib.run_replayer_chunks(exe, lines, wd, name)
        for cr in crashes:
            if cr["id"] is None:
                raise vlib.Broken("replayer failed: " + cr["stderr"][-500:])
        crashed = {cr["id"]: cr for cr in crashes}
        nok = 0
        for pid, exp in enumerate(exps):
            lastop = exp["prog"][-1]["op"] if exp["prog"] else "begin_only"
            per_op[lastop] = per_op.get(lastop, 0) + 1
            vop = exp["path"][-1]["op"] if exp["path"] else "root"
            if pid in crashed:
                rep.violation({"kind": "crash", "iter": exp["kind"], "op": lastop, "view": vop}, {"case": exp, "crash": crashed[pid]})
                continue
            bad = compare(exp, obs.get(pid))
            if bad:
                prev = exp["prog"][-2]["op"] if len(exp["prog"]) > 1 else "begin"
                rep.violation({"kind": "mismatch", "iter": exp["kind"], "op": lastop, "prev": prev, "field": bad[0][0], "empty_view": exp["empty"]},
                              {"case": exp, "observed": obs.get(pid), "mismatches": bad[:4]})
            else:
                nok += 1
                if exp["n"] >= 2 and exp["prog"]:
                    nontrivial.add(json.dumps([exp["root"], exp["path"], exp["kind"], exp["prog"]], sort_keys=True))
        rep.cov["evaluations"] += len(exps)
        rep.cov["traces_validated_against_impl"] += nok
        if len(rep.cov["samples"]) < 3:
            pid = len(exps) // 2
            rep.cov["samples"].append({"case": exps[pid], "observed": obs.get(pid)})
        vlib.log("C02 %s: TLC %d generated / %d distinct; %d programs replayed, %d agree" % (name, res.generated, res.distinct, len(exps), nok))
        os.remove(res.out_path)
    rep.cov["distinct_nontrivial"] = len(nontrivial)
    need = ["inc", "dec", "postinc", "postdec", "addeq", "subeq", "plus", "minus", "assign", "copy", "begin", "end"]
    missing = [o for o in need if per_op.get(o, 0) == 0]
    if missing:
        raise vlib.Broken("iterator operations never exercised: %s" % missing)
    rep.assumptions = ["views: roots D<=3 with extents 0..2 and D<=2 with extents 0..3 (thorough: D<=3, extents 0..3) and every view one operation away (two in thorough)",
                       "iterator programs over two registers, offsets in {-2..2} (quick), positions stay in [begin,end]"]
    return rep.finish(rule="each record = (view program, iterator kind, iterator program); TLC enumerates Iterators.tla; "
                      "edge runs merge programs reaching the same position pair, path runs keep every program; "
                      "non-trivial = range of >= 2 positions and >= 1 iterator operation; distinct = distinct records",
                      exhaustive=(tier == "quick"))
