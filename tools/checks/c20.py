"""C20 -- debug contracts: assertions silent on valid use, fire on out-of-range access;
NDEBUG / BOOST_MULTI_ASSERT_DISABLE change no observable result of a valid program."""
import json
import os

import vlib
from checks import views, arrays
from checks.c04 import consts as aconsts

MODES = [("assert", []), ("ndebug", ["-DNDEBUG"]), ("disabled", ["-DBOOST_MULTI_ASSERT_DISABLE"])]
ASSIGN_KINDS = ["assign_%s_%s_%s" % (m, src, dst) for m in ("longer", "shorter") for src in ("array", "view", "rview", "crview", "oview") for dst in ("lv", "rv")]
SWAPPED_KINDS = ["assign_swapped_%s_%s" % (src, dst) for src in ("array", "view", "rview", "crview", "oview") for dst in ("lv", "rv")]
BAD_KINDS = ["index", "index_far_up", "index_far_down", "deep_index", "call_first", "call_last"] + ASSIGN_KINDS + SWAPPED_KINDS   # slicing out of range is not among the stops the property promises (the 1-D sliced has no assertion)


def strip(o):
    """observation without build-specific noise"""
    return json.dumps(o, sort_keys=True)


def run(tier):
    rep = vlib.Report("C20", tier)
    wd = vlib.workdir("c20")
    jobs = []
    for m, fl in MODES:
        jobs.append((os.path.join(vlib.HARNESS, "replay_views.cpp"), os.path.join(wd, "views_" + m), fl))
        jobs.append((os.path.join(vlib.HARNESS, "replay_arrays.cpp"), os.path.join(wd, "arrays_" + m), fl + ["-DVERIF_ELEM_KIND=0"]))
        jobs.append((os.path.join(vlib.HARNESS, "replay_iters.cpp"), os.path.join(wd, "iters_" + m), fl))
    jobs.append((os.path.join(vlib.HARNESS, "replay_contracts.cpp"), os.path.join(wd, "contracts"), []))
    for (src, out, fl), (ok, text) in zip(jobs, vlib.compile_many(jobs)):
        if not ok:
            raise vlib.Broken("%s does not compile with %s:\n%s" % (src, fl, text[-2000:]))

    # ---- R1/R2: valid programs, three configurations
    def three_way(label, lines, exps, exe_stem, key_of):
        obs = {}
        for m, _ in MODES:
            o, crashes = vlib.run_replayer_chunks(os.path.join(wd, exe_stem + "_" + m), lines, wd, label + m)
            for cr in crashes:
                if cr["id"] is None:
                    raise vlib.Broken("replayer failed: " + cr["stderr"][-500:])
                o[cr["id"]] = {"id": cr["id"], "st": "crash", "rc": cr["rc"]}
            obs[m] = o
        nok = 0
        for pid, exp in enumerate(exps):
            a, n, d = obs["assert"].get(pid), obs["ndebug"].get(pid), obs["disabled"].get(pid)
            sig0 = key_of(exp)
            if a is None or a.get("st") in ("abort", "crash") or "obs_abort" in a or "cells_abort" in a:
                ab = (a or {}).get("abort") or (a or {}).get("obs_abort") or (a or {}).get("cells_abort") or {}
                rep.violation(dict(sig0, kind="assertion_on_valid_program", line=ab.get("line")), {"program": exp, "observed": a})
                continue
            if strip(a) != strip(n) or strip(a) != strip(d):
                rep.violation(dict(sig0, kind="result_differs_between_configurations"), {"program": exp, "assert": a, "ndebug": n, "disabled": d})
                continue
            nok += 1
        rep.cov["evaluations"] += 3 * len(exps)
        rep.cov["traces_validated_against_impl"] += nok
        vlib.log("C20 %s: %d valid programs x 3 configurations, %d identical and assertion-free" % (label, len(exps), nok))
        return nok

    vc = {"MaxD": 3, "MaxExt": 2 if tier == "quick" else 3, "MaxDepth": 2, "MaxDim": 5, "Bases": vlib.Sub("BasesZero"), "OpNames": set(views.ALL_OPS),
          "ParenArgs": 3, "ParenLean": True, "OneDimQuirk": False, "Emit": True}
    res = views.generate("c20_views", vc, rep)
    exps = list(vlib.emitted(res.out_path))
    os.remove(res.out_path)
    lines = [views.program_line(k, e) for k, e in enumerate(exps)]
    nv = three_way("views", lines, exps, "views", lambda e: {"part": "views", "op": e["path"][-1]["op"] if e["path"] else "root"})
    # arrays
    ac = aconsts(2, 2, 2, True, arrays.C04_OPS + arrays.C06_OPS)
    cfg = os.path.join(wd, "c20_arrays.cfg")
    vlib.write_cfg(cfg, spec="ASpec", constants=ac, invariants=["ATypeOK"], view="AVW", constraints=["AEmitC"])
    ares = vlib.run_tlc("ArrayOps", cfg, "c20_arrays")
    rep.add_tlc(ares)
    aexps = list(vlib.emitted(ares.out_path))
    os.remove(ares.out_path)
    alines = [arrays.hline(k, e, 2) for k, e in enumerate(aexps)]
    # unspecified element values (reads of indeterminate ints) may legitimately differ: compare specified parts only
    def akey(e):
        return {"part": "arrays", "op": e["hist"][-1]["op"]}
    na = three_way_arrays(rep, wd, alines, aexps, akey)
    # ---- R3: out-of-domain steps must be stopped by a library assertion (assertion-enabled build)
    kc = dict(vc)
    kc.update({"BadKinds": set(BAD_KINDS), "AssignKinds": set(ASSIGN_KINDS), "SwappedKinds": set(SWAPPED_KINDS), "MaxDepth": 2, "MaxExt": 3, "OpNames": set(o for o in views.ALL_OPS if o != "broadcast")})
    cfg = os.path.join(wd, "c20_contracts.cfg")
    vlib.write_cfg(cfg, spec="KSpec", constants=kc, invariants=["KOutcomeOK", "InBounds"], view="KVW", constraints=["KEmitC"])
    kres = vlib.run_tlc("Contracts", cfg, "c20_contracts")
    rep.add_tlc(kres)
    if kres.violated:
        rep.violation({"kind": "design", "invariant": kres.violated}, {"tlc": kres.error_text})
    kexps, klines, seen = [], [], set()
    for rec in vlib.emitted(kres.out_path):
        k = json.dumps([rec["root"], rec["path"], rec["bad"]], sort_keys=True)
        if k in seen:
            continue
        seen.add(k)
        kexps.append(rec)
        base = views.program_line(len(kexps) - 1, rec).split()
        klines.append(" ".join(["K"] + base[1:] + [rec["bad"]["kind"], str(len(rec["bad"]["args"]))] + [str(x) for x in rec["bad"]["args"]]) + "\n")
    os.remove(kres.out_path)
    kobs, crashes = vlib.run_replayer_chunks(os.path.join(wd, "contracts"), klines, wd, "contracts")
    crashed = {cr["id"]: cr for cr in crashes if cr["id"] is not None}
    nstopped = 0
    per_kind = rep.cov.setdefault("per_bad_kind", {})
    nontrivial = set()
    for pid, exp in enumerate(kexps):
        o = kobs.get(pid)
        vop = "+".join(p["op"] for p in exp["path"]) or "root"
        sig0 = {"part": "contracts", "bad": exp["bad"]["kind"], "view": vop, "Dv": len(exp["shape"])}
        if pid in crashed or o is None:
            rep.violation(dict(sig0, kind="crash_instead_of_assertion"), {"case": exp, "crash": crashed.get(pid)})
            continue
        if o.get("st") == "unsupported" or o.get("outcome") == "unsupported":
            continue
        per_kind[exp["bad"]["kind"]] = per_kind.get(exp["bad"]["kind"], 0) + 1
        if o.get("st") != "ok":
            rep.violation(dict(sig0, kind="assertion_on_valid_program"), {"case": exp, "observed": o})
            continue
        if o.get("outcome") != "assert":
            rep.violation(dict(sig0, kind="out_of_domain_step_" + str(o.get("outcome")), in_root=o.get("in_root")), {"case": exp, "observed": o})
            continue
        if o.get("guards_ok") is not True:
            rep.violation(dict(sig0, kind="wrote_outside_root_before_assertion"), {"case": exp, "observed": o})
            continue
        nstopped += 1
        nontrivial.add(json.dumps([exp["root"], exp["path"], exp["bad"]], sort_keys=True))
    rep.cov["evaluations"] += len(kexps)
    rep.cov["traces_validated_against_impl"] += nstopped
    rep.cov["distinct_nontrivial"] = len(nontrivial) + nv + na
    rep.cov["samples"].append({"case": kexps[len(kexps) // 2], "observed": kobs.get(len(kexps) // 2)})
    vlib.log("C20 contracts: %d out-of-domain steps, %d stopped by a library assertion" % (len(kexps), nstopped))
    missing = [k for k in BAD_KINDS if per_kind.get(k, 0) == 0]
    if missing:
        raise vlib.Broken("out-of-domain kinds never exercised: %s" % missing)
    rep.assumptions = ["an assertion that fires before the access ends the step (no access happens); an access that precedes a later "
                       "assertion would only be seen through the guard cells (writes), not reads",
                       "element values the library leaves unspecified are excluded from the cross-configuration comparison"]
    return rep.finish(rule="R1/R2: every ViewAlgebra/ArrayOps program within the bounds replayed in three build configurations (default, "
                      "-DNDEBUG, -DBOOST_MULTI_ASSERT_DISABLE), observations must be identical and assertion-free; R3: Contracts.tla "
                      "appends one out-of-domain step to every view program, which must end in a library assertion; "
                      "non-trivial = distinct (program, bad step) stopped + distinct valid programs identical in the 3 configurations",
                      exhaustive=True)


def three_way_arrays(rep, wd, lines, exps, key_of):
    obs = {}
    for m, _ in MODES:
        o, crashes = vlib.run_replayer_chunks(os.path.join(wd, "arrays_" + m), lines, wd, "arrays" + m)
        for cr in crashes:
            if cr["id"] is not None:
                o[cr["id"]] = {"id": cr["id"], "st": "crash"}
        obs[m] = o
    nok = 0
    for pid, exp in enumerate(exps):
        a, n, d = obs["assert"].get(pid), obs["ndebug"].get(pid), obs["disabled"].get(pid)
        sig0 = key_of(exp)
        if a is not None and str(a.get("st", "")).startswith("unsupported"):
            continue
        if a is None or a.get("st") != "ok" or "obs_abort" in a:
            rep.violation(dict(sig0, kind="assertion_on_valid_program", line=((a or {}).get("abort") or {}).get("line")), {"history": exp["hist"], "observed": a})
            continue
        bad_a = arrays.compare(exp, a)
        bad_n = arrays.compare(exp, n)
        bad_d = arrays.compare(exp, d)
        if bad_a or bad_n or bad_d:
            rep.violation(dict(sig0, kind="result_differs_between_configurations"),
                          {"history": exp["hist"], "assert": bad_a[:2], "ndebug": bad_n[:2], "disabled": bad_d[:2]})
            continue
        nok += 1
    rep.cov["evaluations"] += 3 * len(exps)
    rep.cov["traces_validated_against_impl"] += nok
    vlib.log("C20 arrays: %d valid histories x 3 configurations, %d correct in all and assertion-free" % (len(exps), nok))
    return nok
