"""C16 -- const-ness propagates: nothing reachable from a const array or view is writable."""
import json
import os
import subprocess
from concurrent.futures import ThreadPoolExecutor

import vlib
import gen_const

ALL_STARTS = ["array", "array_const", "static_array", "static_array_const", "array_ref", "array_ref_const", "view_autorr", "view_constref",
              "view_of_const_autorr"]


def run(tier):
    rep = vlib.Report("C16", tier)
    wd = vlib.workdir("c16")
    c = {"Dims": {1, 2, 3, 4, 5}, "StartKinds": set(ALL_STARTS), "MaxLen": 2 if tier == "quick" else 3, "MaxViewD": 4, "CEmit": True}
    cfg = os.path.join(wd, "c16.cfg")
    vlib.write_cfg(cfg, spec="KSpec", constants=c, properties=["NoEscalation"], constraints=["KEmitC"])
    res = vlib.run_tlc("Constness", cfg, "c16_paths")
    rep.add_tlc(res)
    if res.violated:
        rep.violation({"kind": "design", "invariant": res.violated}, {"tlc": res.error_text})
    recs, seen = [], set()
    for r in vlib.emitted(res.out_path):
        k = json.dumps([r["start"], r["D"], r["steps"]])
        if k not in seen:
            seen.add(k)
            recs.append(r)
    os.remove(res.out_path)
    if tier == "thorough" and len(recs) > 120000:
        import random
        rnd = random.Random(vlib.seed())
        short = [r for r in recs if len(r["steps"]) <= 2]
        long_ = [r for r in recs if len(r["steps"]) > 2]
        recs = short + rnd.sample(long_, 120000 - len(short))
    paths = list(enumerate(recs))
    nt = 48
    chunks = [paths[i::nt] for i in range(nt)]

    def build(k):
        src = os.path.join(wd, "tu_%d.cpp" % k)
        exe = os.path.join(wd, "tu_%d" % k)
        with open(src, "w") as f:
            f.write(gen_const.tu_source(chunks[k]))
        p = subprocess.run(["timeout", "900", vlib.CXX, "-std=c++17", "-O0", "-w", "-I" + os.path.join(vlib.REPO, "include"), src, "-o", exe],
                           stdout=subprocess.PIPE, stderr=subprocess.STDOUT, text=True)
        if p.returncode != 0:
            return k, None, p.stdout[-3000:]
        out = subprocess.run([exe], stdout=subprocess.PIPE, text=True).stdout
        os.remove(exe)
        return k, out, ""
    obs = {}
    with ThreadPoolExecutor(max_workers=vlib.NPROC) as ex:
        for k, out, err in ex.map(build, range(nt)):
            if out is None:
                raise vlib.Broken("generated translation unit %d does not compile (a hard error outside the detection idiom):\n%s" % (k, err))
            for line in out.splitlines():
                v = [int(x) for x in line.split()]
                obs[v[0]] = v[1:]
    nok = absent = 0
    nontrivial = set()
    failed = set()     # (start, D, steps) of paths already reported: longer paths through them share the root cause
    paths.sort(key=lambda pr: len(pr[1]["steps"]))
    per_step = rep.cov.setdefault("per_last_step", {})
    for pid, r in paths:
        o = obs.get(pid)
        if o is None:
            raise vlib.Broken("no observation for path %d" % pid)
        exists = o[0]
        if exists == -1:
            absent += 1
            continue
        per_step[r["steps"][-1]] = per_step.get(r["steps"][-1], 0) + 1
        names = [n for n, _ in gen_const.reaches(r["cat"], r["dim"], "")]
        vals = o[1:1 + len(names)]
        extra = dict(zip(gen_const.extra_names(r["cat"], r["dim"]), o[1 + len(names):]))
        swap_obs = extra.get("s")
        conv_obs = extra.get("c")
        key = (r["start"], r["D"], tuple(r["steps"]))
        if any((r["start"], r["D"], tuple(r["steps"][:k])) in failed for k in range(1, len(r["steps"]))):
            failed.add(key)
            rep.notes["paths_through_an_already_reported_step"] = rep.notes.get("paths_through_an_already_reported_step", 0) + 1
            continue
        sig0 = {"start": r["start"], "step": r["steps"][-1], "after": "+".join(r["steps"][:-1]) or "start", "cat": r["cat"]}
        if r["w"] == 0:
            hole = [n for n, v in zip(names, vals) if v == 1]
            if hole:
                failed.add(key)
                rep.violation(dict(sig0, kind="writable_from_const", reach=hole[0]), {"path": r, "expr": gen_const.expr_of(r["steps"], "<start>"), "reaches": dict(zip(names, vals))})
                continue
            if swap_obs is not None and swap_obs != -1:
                # swap(mutable view, x) writes into x: it must be rejected for a read-only x
                failed.add(key)
                rep.violation(dict(sig0, kind="swap_accepted_with_read_only_view"), {"path": r, "expr": gen_const.expr_of(r["steps"], "<start>")})
                continue
            if conv_obs == 1:
                # a read-only iterator / elements range / cursor converts into (or is assignable to) its mutable counterpart
                failed.add(key)
                rep.violation(dict(sig0, kind="converts_to_mutable_counterpart"), {"path": r, "expr": gen_const.expr_of(r["steps"], "<start>")})
                continue
        else:
            if conv_obs is not None:
                rep.cov["mutable_paths_converting_to_their_own_kind"] = rep.cov.get("mutable_paths_converting_to_their_own_kind", 0) + (1 if conv_obs == 1 else 0)
            if vals and vals[0] != 1:
                failed.add(key)
                rep.violation(dict(sig0, kind="not_writable_from_mutable", reach=names[0]),
                              {"path": r, "expr": gen_const.expr_of(r["steps"], "<start>"), "reaches": dict(zip(names, vals))})
                continue
        nok += 1
        nontrivial.add(pid)
    # fixed facts: views / array_ref cannot be resized or rebound, a named view cannot be copied into another view object
    fsrc = os.path.join(wd, "facts.cpp")
    with open(fsrc, "w") as f:
        f.write(gen_const.FACTS)
    okc, text = vlib.compile_cpp(fsrc, os.path.join(wd, "facts"), opt="-O0")
    if not okc:
        raise vlib.Broken("facts.cpp does not compile:\n" + text[-2000:])
    for line in subprocess.run([os.path.join(wd, "facts")], stdout=subprocess.PIPE, text=True).stdout.splitlines():
        fct = json.loads(line)
        for k, want in (("view_has_reextent", 0), ("view_has_clear", 0), ("ref_has_reextent", 0), ("ref_has_clear", 0),
                        ("view_copy_from_named", 0), ("view_copy_from_const_named", 0), ("cview_copy_from_named", 0), ("array_has_reextent", 1)):
            if fct[k] != want:
                rep.violation({"kind": "fact", "fact": k, "D": fct["D"]}, {"facts": fct})
        rep.cov.setdefault("facts", []).append(fct)
    rep.cov["evaluations"] += len(paths)
    rep.cov["traces_validated_against_impl"] += nok
    rep.cov["distinct_nontrivial"] = len(nontrivial)
    rep.notes["paths_absent_for_their_start"] = absent
    rep.cov["samples"] = [{"path": recs[len(recs) // 3], "expr": gen_const.expr_of(recs[len(recs) // 3]["steps"], "<start>"), "observed": obs.get(len(recs) // 3)}]
    vlib.log("C16: %d paths (%d exist for their start type), %d agree" % (len(paths), len(paths) - absent, nok))
    rep.assumptions = ["observations are made on types only (std::declval expressions, detection idiom); a path that is ill-formed for a start type is not judged",
                       "writability of a view is observed through four reaches: chained brackets, *elements().begin(), home() cursor, nested *begin()"]
    return rep.finish(rule="Constness.tla enumerates every access path of length <= MaxLen from 9 start kinds x D in 1..3 with the prescribed "
                      "writability; each existing path is one compile-time observation; non-trivial = path exists for its start type",
                      exhaustive=(tier == "quick"))
