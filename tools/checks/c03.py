"""C03 -- standard algorithms on array/view ranges act as on independent values."""
import json
import os

import vlib
from checks import views

ALGS = ["sort", "stable_sort", "partial_sort", "nth_element", "rotate", "reverse", "partition", "unique", "remove", "copy", "copy_backward",
        "move", "copy_from", "swap_ranges", "fill", "transform", "find", "equal", "is_sorted", "accumulate", "lexicographical_compare",
        "is_sorted_greater", "sort_greater"]
OPS = [o for o in views.ALL_OPS if o != "broadcast"]


def consts(D, ext, depth, maxitems, bases="BasesZero", ops=None):
    return {"MaxD": D, "MaxExt": ext, "MaxDepth": depth, "MaxDim": 4, "Bases": vlib.Sub(bases), "OpNames": set(ops or OPS),
            "ParenArgs": 3, "ParenLean": True, "OneDimQuirk": False, "Emit": True,
            "Algs": set(ALGS), "GKinds": {"outer", "elems"}, "MaxItems": maxitems}


def gline(pid, rec, seed):
    base = views.program_line(pid, rec).split()
    return " ".join(["G"] + base[1:] + [rec["kind"], rec["alg"], str(rec["arg"]), str(seed)]) + "\n"


def run(tier):
    rep = vlib.Report("C03", tier)
    wd = vlib.workdir("c03")
    exe = os.path.join(wd, "replay_algs")
    ok, text = vlib.compile_cpp(os.path.join(vlib.HARNESS, "replay_algs.cpp"), exe)
    if not ok:
        raise vlib.Broken("replay_algs.cpp does not compile:\n" + text[-3000:])
    # c03_bases: the same algorithms on roots and views whose index bases are not zero (in any dimension): the values an
    # algorithm saves from a proxy row and the proxy rows it compares them with must keep agreeing
    plan = [("c03_d2", consts(2, 3, 1, 9)), ("c03_d3", consts(3, 2, 1, 8)), ("c03_bases", consts(2, 3, 0, 9, "BasesMixed", OPS + ["reindexed"]))]
    seeds = [vlib.seed(), vlib.seed() + 1] if tier == "quick" else [vlib.seed() + k for k in range(12)]
    if tier == "thorough":
        plan = [("c03_d2", consts(2, 3, 2, 9)), ("c03_d3", consts(3, 3, 1, 9)), ("c03_d3b", consts(3, 2, 2, 8)),
                ("c03_bases", consts(2, 3, 1, 9, "BasesMixed", OPS + ["reindexed"])), ("c03_bases_d3", consts(3, 2, 0, 8, "BasesMixed", OPS + ["reindexed"]))]
    per_alg = rep.cov.setdefault("per_algorithm", {})
    nontrivial = set()
    for name, c in plan:
        cfg = os.path.join(wd, name + ".cfg")
        vlib.write_cfg(cfg, spec="GSpec", constants=c, invariants=["GInjective", "InBounds"], view="GVW", constraints=["GEmitC"])
        res = vlib.run_tlc("AlgGen", cfg, name)
        rep.add_tlc(res)
        if res.violated:
            rep.violation({"kind": "design", "invariant": res.violated}, {"tlc": res.error_text})
            continue
        cases, seen = [], set()
        for rec in vlib.emitted(res.out_path):
            k = json.dumps([rec["root"], rec["path"], rec["kind"], rec["alg"], rec["arg"]], sort_keys=True)
            if k in seen:
                continue
            seen.add(k)
            cases.append(rec)
        os.remove(res.out_path)
        exps, lines = [], []
        for sd in seeds:
            for rec in cases:
                exps.append((rec, sd))
                lines.append(gline(len(exps) - 1, rec, sd))
        obs, crashes = vlib.run_replayer_chunks(exe, lines, wd, name)
        for cr in crashes:
            if cr["id"] is None:
                raise vlib.Broken("replayer failed: " + cr["stderr"][-800:])
        crashed = {cr["id"]: cr for cr in crashes}
        # write the trace: the item cells come from the specification, everything else from the code
        nchunks = vlib.NPROC
        tfiles = [os.path.join(wd, "%s_trace_%d.ndjson" % (name, k)) for k in range(nchunks)]
        outs = [open(t, "w") for t in tfiles]
        ntr = unsup = 0
        for pid, (rec, sd) in enumerate(exps):
            vop = "+".join(p["op"] for p in rec["path"]) or "root"
            sig0 = {"alg": rec["alg"], "range": rec["kind"], "view": vop}
            if pid in crashed:
                rep.violation(dict(sig0, kind="crash"), {"case": rec, "seed": sd, "crash": crashed[pid]})
                continue
            o = obs.get(pid)
            if o is None:
                rep.violation(dict(sig0, kind="missing"), {"case": rec, "seed": sd})
                continue
            if o.get("st") == "unsupported":
                unsup += 1
                continue
            if o.get("st") == "abort":
                rep.violation(dict(sig0, kind="abort", line=o.get("abort", {}).get("line")), {"case": rec, "seed": sd, "observed": o})
                continue
            o["cells"] = rec["cells"]
            per_alg[rec["alg"]] = per_alg.get(rec["alg"], 0) + 1
            outs[pid % nchunks].write(json.dumps(o) + "\n")
            ntr += 1
        for f in outs:
            f.close()
        comps, states = vlib.validate_traces("Algorithms", "GSpec", tfiles, name + "_mon")
        rep.cov["states"] += states
        rep.cov["transitions"] += states
        badids = set()
        for cpl in comps:
            rec, sd = exps[cpl["id"]]
            vop = "+".join(p["op"] for p in rec["path"]) or "root"
            badids.add(cpl["id"])
            rep.violation({"kind": "contract", "alg": rec["alg"], "range": rec["kind"], "view": vop, "what": cpl["bad"]},
                          {"case": rec, "seed": sd, "observed": obs.get(cpl["id"]), "complaint": cpl})
        for pid, (rec, sd) in enumerate(exps):
            if pid not in badids and len(rec["cells"]) >= 2 and rec["path"]:
                nontrivial.add(json.dumps([rec["root"], rec["path"], rec["kind"], rec["alg"], rec["arg"], sd], sort_keys=True))
        rep.cov["evaluations"] += len(exps)
        rep.cov["traces_validated_against_impl"] += ntr - len(badids)
        if len(rep.cov["samples"]) < 3 and exps:
            pid = len(exps) // 2
            rep.cov["samples"].append({"case": exps[pid][0], "seed": exps[pid][1], "observed": obs.get(pid)})
        vlib.log("C03 %s: %d cases x %d seeds, %d trace records validated by Algorithms.tla, %d complaints, %d unsupported" % (name, len(cases), len(seeds), ntr, len(comps), unsup))
        for t in tfiles:
            os.remove(t)
    rep.cov["distinct_nontrivial"] = len(nontrivial)
    missing = [a for a in ALGS if per_alg.get(a, 0) == 0]
    if missing:
        raise vlib.Broken("algorithms never exercised: %s" % missing)
    rep.assumptions = ["data: values 0..2 drawn from VERIF_SEED (duplicates occur); items of a begin()/end() range are compared lexicographically",
                       "the item cells of each range are prescribed by MultiSem (AlgGen.tla), not read from the implementation"]
    return rep.finish(rule="AlgGen.tla enumerates view x range kind x algorithm x argument; each case runs on pseudo-random data for several "
                      "seeds; Algorithms.tla validates the recorded before/after stores, auxiliary range and returned position; "
                      "non-trivial = derived view, range of >= 2 items", exhaustive=False)
