"""Direction G for histories of owning-array operations (ArrayOps.tla -> replay_arrays.cpp).
Shared by C04 (value semantics), C06 (reextent & co) and the array part of C19."""
import json
import os

import vlib

C04_OPS = ["ctor_default", "ctor_ext", "ctor_fill", "ctor_iota", "ctor_view", "decay", "ctor_range", "ctor_copy", "ctor_move",
           "ctor_ref", "ctor_rref", "ctor_other", "ctor_other_x", "ctor_il", "assign_copy", "assign_move", "assign_other", "assign_il", "swap",
           "assign_view", "self_assign", "write", "write_last", "destroy", "ref_assign", "ref_assign_move", "assign_rview", "swap_views"]
C06_OPS = ["reextent", "reextent_fill", "reextent_move", "clear", "assign_empty", "reshape", "assign_range", "assign_range_ptr"]
MOVES = {"ctor_move", "assign_move", "ctor_move_al"}


def hline(pid, rec, nslots):
    parts = ["H", str(pid), str(rec["D"]), str(nslots), str(len(rec["hist"]))]
    for o in rec["hist"]:
        x = o["x"]
        w = o["w"]
        parts += [o["op"], str(o["s"]), str(o["t"]), str(o["v"]), str(len(x["shape"]))]
        parts += [str(a) for a in x["shape"]] + [str(a) for a in x["first"]]
        parts.append(str(len(w)))
        for wo in w:
            parts += [wo["op"], str(len(wo["args"]))] + [str(a) for a in wo["args"]]
    return " ".join(parts) + "\n"


PATTERN = 0x5A5A5A5A   # the dirty allocator fills fresh storage with this


def compare(exp, o, check_first=True, pattern=False):
    if o is None:
        return [("missing", None, None)]
    if o.get("st") == "abort":
        a = o.get("abort", {})
        return [("abort:%s:%s" % (a.get("kind"), a.get("line")), "ok", {"at": o.get("at"), "abort": a})]
    if o.get("st") != "ok":
        return [("status", "ok", o.get("st"))]
    if "obs_abort" in o:
        return [("abort_in_observation", "ok", o["obs_abort"])]
    bad = []
    for k, (e, a) in enumerate(zip(exp["arrays"], o["arrays"])):
        if e["live"] != a["live"]:
            bad.append(("live[%d]" % k, e["live"], a["live"]))
            continue
        if not e["live"]:
            continue
        if exp.get("check_alloc") and "al" in a and a["al"] != exp["alloc"][k]:
            bad.append(("allocator[%d]" % k, exp["alloc"][k], a["al"]))
        if e["shape"] == [-1]:
            continue        # valid but unspecified (source of an element-wise move)
        ne = 1
        for s in e["shape"]:
            ne *= s
        if ne == 0:
            if a["ne"] != 0:
                bad.append(("num_elements[%d]" % k, 0, a["ne"]))
            if a.get("empty") is not True and exp["D"] > 0:
                bad.append(("is_empty[%d]" % k, True, a.get("empty")))
            continue
        if a["sizes"] != e["shape"]:
            bad.append(("sizes[%d]" % k, e["shape"], a["sizes"]))
            continue
        if check_first and a.get("first") != e["first"]:
            bad.append(("index_bases[%d]" % k, e["first"], a.get("first")))
        ev, av = e["val"], a.get("val", [])
        if len(ev) != len(av) or any(x != -1 and x != y for x, y in zip(ev, av)):
            bad.append(("elements[%d]" % k, ev, av))
        elif pattern and any(x == -1 and y != PATTERN for x, y in zip(ev, av)):
            # elements the specification leaves unspecified must not have been written at all
            bad.append(("wrote_to_trivial_elements[%d]" % k, "untouched storage pattern", av))
        if "val_by_index" in a:
            bad.append(("elements_by_index_vs_flat[%d]" % k, av, a["val_by_index"]))
    if o.get("disjoint") is not True:
        bad.append(("storage_shared", True, o.get("disjoint")))
    last = exp["hist"][-1]
    lj = o.get("last", {})
    if last["op"] in MOVES and lj.get("moved_ne", 0) > 0:
        src = exp["arrays"][last["t"] - 1]
        if src["shape"] == [-1]:
            if lj.get("same_data") is not False:
                bad.append(("move_handed_block_to_unequal_allocator", False, lj.get("same_data")))
        elif lj.get("same_data") is not True:
            bad.append(("move_did_not_transfer_storage", True, lj.get("same_data")))
    if lj.get("ext_eq_src") is False:
        # whatever extensions the library reports for the source of a copy (also one without elements), the copy reports the same
        bad.append(("copy_extensions_differ_from_source", True, False))
    if lj.get("swap_exchanged_extensions") is False:
        bad.append(("swap_did_not_exchange_extensions", True, False))
    if lj.get("rvalue_reextent_elements_ok") is False:
        bad.append(("rvalue_reextent_left_elements_that_are_neither_kept_nor_value_initialised", True, False))
    if lj.get("ext_as_requested") is False:
        bad.append(("reextent_extensions_differ_from_requested", True, False))
    if lj.get("same_extents") and lj.get("same_data") is not True:
        bad.append(("reextent_same_extents_moved_storage", True, lj.get("same_data")))
    return bad


def run_config(rep, prop, name, constants, exe, wd, nslots, sim=None, check_first=True, sig_extra=None, timeout=1500, trace=False, faults=False, pattern=False, judge_values=True, check_alloc=False):
    cfg = os.path.join(wd, name + ".cfg")
    vlib.write_cfg(cfg, spec="ASpec", constants=constants, invariants=["ATypeOK"], properties=["Independence"], view="AVW",
                   constraints=["AEmitC"])
    res = vlib.run_tlc("ArrayOps", cfg, name, timeout=timeout, **(sim or {}))
    rep.add_tlc(res)
    if res.violated:
        rep.violation({"kind": "design", "invariant": res.violated}, {"tlc": res.error_text})
        return
    exps, lines, seen = [], [], set()
    for rec in vlib.emitted(res.out_path):
        k = json.dumps(rec["hist"], sort_keys=True)
        if k in seen:
            continue
        seen.add(k)
        rec["check_alloc"] = check_alloc
        exps.append(rec)
        lines.append(hline(len(exps) - 1, rec, nslots))
    if not exps:
        raise vlib.Broken("no histories emitted by " + name)
    traces = []
    args_fn = None
    if trace:
        def args_fn(ci, rnd):
            tf = os.path.join(wd, "%s_trace_%d_%d.ndjson" % (name, ci, rnd))
            traces.append(tf)
            return [tf] + (["faults"] if faults else [])
    obs, crashes = vlib.run_replayer_chunks(exe, lines, wd, name, args_fn=args_fn)
    for cr in crashes:
        if cr["id"] is None:
            raise vlib.Broken("replayer failed: " + cr["stderr"][-800:])
    crashed = {cr["id"]: cr for cr in crashes}
    per_op = rep.cov.setdefault("per_last_op", {})
    nok = unsupported = 0
    nontrivial = rep.notes.setdefault("_nontrivial", set())
    for pid, exp in enumerate(exps):
        last = exp["hist"][-1]
        o = obs.get(pid)
        if o is not None and str(o.get("st", "")).startswith("unsupported"):
            unsupported += 1
            continue
        per_op[last["op"]] = per_op.get(last["op"], 0) + 1
        if pid in crashed:
            rep.violation(dict({"kind": "crash", "op": last["op"], "D": exp["D"]}, **(sig_extra or {})), {"history": exp, "crash": crashed[pid]})
            continue
        bad = compare(exp, o, check_first, pattern) if judge_values else []
        if bad:
            prev = exp["hist"][-2]["op"] if len(exp["hist"]) > 1 else "none"
            sig = {"kind": "mismatch", "op": last["op"], "w": "+".join(wo["op"] for wo in last["w"]) or "none", "field": bad[0][0].split("[")[0], "D": exp["D"], "prev": prev}
            if sig_extra:
                sig.update(sig_extra)
            rep.violation(sig, {"history": exp["hist"], "prescribed": exp["arrays"], "observed": o, "mismatches": bad[:4]})
        else:
            nok += 1
            if len(exp["hist"]) >= 2 and any(a["live"] and len(a["val"]) >= 2 for a in exp["arrays"]):
                nontrivial.add(json.dumps(exp["hist"], sort_keys=True))
    rep.cov["evaluations"] += len(exps)
    rep.cov["traces_validated_against_impl"] += nok
    rep.notes["unsupported_by_harness"] = rep.notes.get("unsupported_by_harness", 0) + unsupported
    if len(rep.cov["samples"]) < 3:
        pid = len(exps) * 2 // 3
        rep.cov["samples"].append({"history": exps[pid]["hist"], "prescribed": exps[pid]["arrays"], "observed": obs.get(pid)})
    rep.notes["_last_exps"] = exps
    rep.notes["_last_obs"] = obs
    vlib.log("%s %s: TLC %d generated / %d distinct; %d histories replayed, %d agree, %d unsupported" % (prop, name, res.generated, res.distinct, len(exps), nok, unsupported))
    os.remove(res.out_path)
    return traces


def build(wd, kind, name=None, extra_flags=()):
    exe = os.path.join(wd, name or ("replay_arrays_%d" % kind))
    ok, text = vlib.compile_cpp(os.path.join(vlib.HARNESS, "replay_arrays.cpp"), exe, flags=["-DVERIF_ELEM_KIND=%d" % kind] + list(extra_flags))
    if not ok:
        raise vlib.Broken("replay_arrays.cpp (element kind %d) does not compile:\n%s" % (kind, text[-3000:]))
    return exe


def finish(rep, rule, exhaustive, level="model_checking"):
    rep.notes.pop("_last_exps", None)
    rep.notes.pop("_last_obs", None)
    nt = rep.notes.pop("_nontrivial", set())
    rep.cov["distinct_nontrivial"] = len(nt)
    return rep.finish(level=level, rule=rule, exhaustive=exhaustive)
