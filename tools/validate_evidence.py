#!/usr/bin/env python3
"""Validate /verif/evidence/*.json and MANIFEST.json against the schemas (run with python3-vt, which has jsonschema)."""
import glob, json, sys
import jsonschema
ev_schema = json.load(open("/root/.vp/EVIDENCE.schema.json"))
man_schema = json.load(open("/root/.vp/MANIFEST.schema.json"))
man = json.load(open("/verif/MANIFEST.json"))
bad = 0
try:
    jsonschema.validate(man, man_schema)
except jsonschema.ValidationError as e:
    print("MANIFEST:", e.message[:300]); bad += 1
claimed = {}
for c in man.get("checks", man.get("properties", [])):
    if isinstance(c, dict):
        claimed[c.get("property_id", c.get("id"))] = c
for f in sorted(glob.glob("/verif/evidence/*.json")):
    ev = json.load(open(f))
    try:
        jsonschema.validate(ev, ev_schema)
    except jsonschema.ValidationError as e:
        print(f, ":", e.message[:300]); bad += 1
    c = claimed.get(ev["property_id"])
    if c:
        cat = c.get("level_claimed", {}).get("category")
        if cat and cat != ev["level"]:
            print(f, ": level", ev["level"], "but manifest says", cat); bad += 1
print("checked", len(glob.glob("/verif/evidence/*.json")), "evidence files;", bad, "problems")
sys.exit(1 if bad else 0)
