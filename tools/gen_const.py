"""Turns access paths enumerated by Constness.tla into C++ translation units that OBSERVE, at compile time
(detection idiom: an ill-formed expression yields -1 instead of a build error), whether an element reached
through each path is assignable.  No expectations in the generated code."""

START_TYPES = {
    "array": "multi::array<int, {D}>&",
    "array_const": "multi::array<int, {D}> const&",
    "static_array": "multi::static_array<int, {D}>&",
    "static_array_const": "multi::static_array<int, {D}> const&",
    "array_ref": "multi::array_ref<int, {D}>&",
    "array_ref_const": "multi::array_ref<int, {D}> const&",
    "view_autorr": "multi::subarray<int, {D}>&",
    "view_constref": "multi::subarray<int, {D}> const&",
    "view_of_const_autorr": "std::remove_reference_t<decltype(std::declval<multi::array<int, {D}> const&>()())>&",
}

POSTFIX = {
    "idx": "[0]", "callidx": "(0)", "callidx2": "(0, 0)", "callidx3": "(0, 0, 0)", "callidx4": "(0, 0, 0, 0)", "callidx5": "(0, 0, 0, 0, 0)", "callmix": "(0, multi::irange(0, 1))", "front": ".front()", "back": ".back()", "call0": "()", "callrng": "(multi::irange(0, 1))",
    "callall": "(multi::_)", "rotated": ".rotated()", "unrotated": ".unrotated()", "reversed": ".reversed()", "sliced": ".sliced(0, 1)",
    "strided": ".strided(1)", "dropped": ".dropped(0)", "taked": ".taked(1)", "transposed": ".transposed()", "diagonal": ".diagonal()",
    "flatted": ".flatted()", "partitioned": ".partitioned(1)", "chunked": ".chunked(1)", "as_const": ".as_const()",
    "broadcasted": ".broadcasted()", "transformed": ".element_transformed(std::declval<int (*)(int const&)>())",
    "begin": ".begin()", "end": ".end()", "cbegin": ".cbegin()", "cend": ".cend()", "elements": ".elements()", "home": ".home()",
    "reindexed": ".reindexed(1)", "reindexed2": ".reindexed(1, 1)", "blocked": ".blocked(0, 1)", "stenciled": ".stenciled({0, 1})", "range": ".range({0, 1})",
    "sliced3": ".sliced(0, 1, 1)", "transformed_ref": ".element_transformed(std::declval<int& (*)(int&)>())",
    "itidx": "[0]", "ebegin": ".begin()", "eidx": "[0]", "efront": ".front()", "eback": ".back()", "cidx": "[0]",
}


def expr_of(steps, base="std::declval<S>()"):
    e = base
    for s in steps:
        if s == "tilde":
            e = "(~(" + e + "))"
        elif s in ("deref", "ederef"):
            e = "(*(" + e + "))"
        elif s == "itplus":
            e = "((" + e + ") + 1)"
        elif s == "addrderef":
            e = "(*(&(" + e + ")))"
        elif s == "arrow":
            e = "(*((" + e + ").operator->()))"
        elif s == "rebuilt":
            e = "rebuilt_t<decltype(" + e + ")>((" + e + ").begin(), (" + e + ").end())"
        else:
            e = "(" + e + ")" + POSTFIX[s]
    return e


def reaches(cat, dim, e):
    """list of (name, element expression)"""
    if cat == "element":
        return [("self", e)]
    if cat == "view":
        nest = e
        for _ in range(dim):
            nest = "(*(" + nest + ").begin())"
        return [("brackets", "(" + e + ")" + "[0]" * dim), ("elements", "(*(" + e + ").elements().begin())"),
                ("cursor", "(" + e + ").home()" + "[0]" * dim), ("iterators", nest)]
    if cat == "iterator":
        return [("deref", "(*(" + e + "))" + "[0]" * (dim - 1))]
    if cat == "erange":
        return [("begin", "(*(" + e + ").begin())"), ("index", "(" + e + ")[0]")]
    if cat == "eiter":
        return [("deref", "(*(" + e + "))")]
    if cat == "cursor":
        return [("index", "(" + e + ")" + "[0]" * dim)]
    return []


# the object of the same category reached from a MUTABLE view of the same dimensionality: a read-only one must not convert into it
MUTABLE_TWIN = {
    "view": "MV{d}",
    "iterator": "decltype(std::declval<MV{d}&>().begin())",
    "eiter": "decltype(std::declval<MV{d}&>().elements().begin())",
    "erange": "decltype(std::declval<MV{d}&>().elements())",
    "cursor": "decltype(std::declval<MV{d}&>().home())",
}


def extra_names(cat, dim):
    """labels of the observations that follow the reaches, in order"""
    out = []
    if cat == "view" and dim >= 1:
        out += ["a", "s"]
    if cat in MUTABLE_TWIN and 1 <= dim <= 5:
        out += ["c"]
    return out


def tu_source(paths):
    """paths: list of (id, record).  Returns C++ source printing `id exists r...` lines."""
    out = ["#include <boost/multi/array.hpp>", "#include <cstdio>", "#include <type_traits>", "#include <utility>",
           "namespace multi = boost::multi;",
           "using AR1 = multi::array<int, 1>; using AR2 = multi::array<int, 2>; using AR3 = multi::array<int, 3>; using AR4 = multi::array<int, 4>; using AR5 = multi::array<int, 5>;",
           "template<class X> using rebuilt_t = multi::subarray<int, std::decay_t<X>::rank_v>;",
           "using MV1 = multi::subarray<int, 1>; using MV2 = multi::subarray<int, 2>; using MV3 = multi::subarray<int, 3>; using MV4 = multi::subarray<int, 4>; using MV5 = multi::subarray<int, 5>;",
           "#define OBS(NAME, EXPR) template<class S, class = void> struct NAME { static constexpr int v = -1; }; "
           "template<class S> struct NAME<S, std::void_t<decltype(EXPR)>> { static constexpr int v = std::is_assignable_v<decltype(EXPR), int> ? 1 : 0; };",
           # (implicit conversions only: is_constructible also answers yes for explicit constructor templates that are not SFINAE-friendly and
           #  fail when instantiated)  (REBIND: assignment re-seats an iterator or cursor, so it counts as a conversion; assigning to an elements range copies the elements instead)
           "#define OBSC(NAME, EXPR, TO, REBIND) template<class S, class = void> struct NAME { static constexpr int v = -1; }; "
           "template<class S> struct NAME<S, std::void_t<decltype(EXPR)>> { static constexpr int v = (std::is_convertible_v<decltype(EXPR), TO> || (REBIND && std::is_assignable_v<TO&, decltype(EXPR)>)) ? 1 : 0; };",
           "#define OBSA(NAME, EXPR, FROM) template<class S, class = void> struct NAME { static constexpr int v = -1; }; "
           "template<class S> struct NAME<S, std::void_t<decltype(EXPR)>> { static constexpr int v = std::is_assignable_v<decltype(EXPR), FROM> ? 1 : 0; };"]
    main = ["int main() {"]
    for pid, rec in paths:
        e = expr_of(rec["steps"])
        st = START_TYPES[rec["start"]].format(D=rec["D"])
        out.append("OBS(P%d_x, %s)" % (pid, e))
        names = ["P%d_x" % pid]
        for k, (nm, re_) in enumerate(reaches(rec["cat"], rec["dim"], e)):
            out.append("OBS(P%d_r%d, %s)" % (pid, k, re_))
            names.append("P%d_r%d" % (pid, k))
        if rec["cat"] == "view" and rec["dim"] >= 1:
            out.append("OBSA(P%d_a, %s, AR%d const&)" % (pid, e, rec["dim"]))
            names.append("P%d_a" % pid)
            # is swap(mutable temporary view, x) accepted?  (-1: rejected)
            out.append("OBS(P%d_s, swap(std::declval<MV%d&&>(), %s))" % (pid, rec["dim"], e))
            names.append("P%d_s" % pid)
        if "c" in extra_names(rec["cat"], rec["dim"]):
            out.append("OBSC(P%d_c, %s, %s, %s)" % (pid, e, MUTABLE_TWIN[rec["cat"]].format(d=rec["dim"]), "false" if rec["cat"] in ("erange", "view") else "true"))
            names.append("P%d_c" % pid)
        fmt = "%d" + " %d" * len(names)
        main.append('  std::printf("%s\\n", %d, %s);' % (fmt, pid, ", ".join("%s<%s>::v" % (n, st) for n in names)))
    main.append("  return 0;\n}")
    return "\n".join(out + main) + "\n"


FACTS = r'''
#include <boost/multi/array.hpp>
#include <cstdio>
#include <type_traits>
namespace multi = boost::multi;
template<class V, class = void> struct has_reextent : std::false_type {};
template<class V> struct has_reextent<V, std::void_t<decltype(std::declval<V&>().reextent(std::declval<typename V::extensions_type>()))>> : std::true_type {};
template<class V, class = void> struct has_clear : std::false_type {};
template<class V> struct has_clear<V, std::void_t<decltype(std::declval<V&>().clear())>> : std::true_type {};
template<class V, class = void> struct copy_from_named : std::false_type {};
template<class V> struct copy_from_named<V, std::void_t<decltype(V(std::declval<V&>()))>> : std::true_type {};
template<class V, class = void> struct copy_from_const_named : std::false_type {};
template<class V> struct copy_from_const_named<V, std::void_t<decltype(V(std::declval<V const&>()))>> : std::true_type {};
template<int D> void facts() {
	using view = multi::subarray<int, D>;
	using cview = multi::const_subarray<int, D>;
	using ref = multi::array_ref<int, D>;
	std::printf("{\"D\":%d,\"view_has_reextent\":%d,\"view_has_clear\":%d,\"ref_has_reextent\":%d,\"ref_has_clear\":%d,"
	            "\"view_copy_from_named\":%d,\"view_copy_from_const_named\":%d,\"cview_copy_from_named\":%d,\"ref_copy_from_named\":%d,"
	            "\"array_has_reextent\":%d}\n", D,
		int(has_reextent<view>::value), int(has_clear<view>::value), int(has_reextent<ref>::value), int(has_clear<ref>::value),
		int(copy_from_named<view>::value), int(copy_from_const_named<view>::value), int(copy_from_named<cview>::value), int(copy_from_named<ref>::value),
		int(has_reextent<multi::array<int, D>>::value));
}
int main() { facts<1>(); facts<2>(); facts<3>(); return 0; }
'''
