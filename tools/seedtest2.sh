#!/bin/bash
# usage: tools/seedtest2.sh <patch.diff> <PROP> [<PROP>...]  -- like seedtest.sh but on a scratch copy of /repo/include (VERIF_REPO),
# so that it can run while other checks use /repo
set -u
patch=$(realpath "$1"); shift
S=/tmp/seedtest2_$$; rm -rf $S; mkdir -p $S; cp -r /repo/include $S/include
if ! patch -p1 -s -d $S -i "$patch" >/dev/null 2>&1; then echo "PATCH DOES NOT APPLY: $patch"; rm -rf $S; exit 3; fi
for p in "$@"; do
  out=$(VERIF_REPO=$S /verif/bin/vcheck "$p" --tier "${TIER:-quick}" 2>&1); rc=$?
  echo "== $p rc=$rc  $(echo "$out" | grep -c '^VIOLATION') violation lines"
  echo "$out" | grep -E "signature|BROKEN" | head -${SHOW:-4}
done
H=$(python3 -c "import hashlib,os;print(hashlib.sha1(os.path.realpath('$S').encode()).hexdigest()[:8])")
rm -rf $S /verif/build_$H
