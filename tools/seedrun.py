#!/usr/bin/env python3
"""For every confirmed seeded change under /verif/seeded/<PROP>-<n>/: apply the patch to a scratch copy of /repo/include
(never to /repo), run the property's quick check against it (VERIF_REPO), record the outcome in meta.json, remove the copy.
usage: tools/seedrun.py [ID ...]"""
import json
import os
import re
import shutil
import subprocess
import sys

V = "/verif"
# seeded changes whose own property check stays quiet because what breaks lies in a sibling property's domain
# (index bases -> C19, unequal allocators -> C10): the sibling's quick check is run as well
SIBLINGS = {"C01-r2-1": ["C19"], "C05-r2-1": ["C19"], "C06-r2-1": ["C19"], "C08-r2-1": ["C10"],
            "C03-r3-2": ["C07"], "C11-r3-2": ["C09"], "C20-r3-2": ["C09"],
            "C04-r4-2": ["C10"], "C05-r4-2": ["C02"], "C06-r4-2": ["C10"], "C08-r4-2": ["C06"],
            "C03-r5-1": ["C07"], "C03-r5-2": ["C04"], "C09-r5-2": ["C10"], "C19-r5-2": ["C12"], "C20-r5-1": ["C05"],
            "C04-r6-1": ["C10"], "C05-r6-1": ["C02"], "C06-r6-1": ["C19"], "C08-r6-1": ["C10"], "C11-r6-1": ["C10"], "C12-r6-1": ["C19", "C04"],
            "C09-r7-2": ["C05"], "C19-r7-1": ["C17"], "C06-r7-2": ["C19"]}
# seeded changes whose demonstration lies outside the library's documented domain (not demanded of any check)
OUT_OF_DOMAIN = {"C15-r5-1": "the change only manifests when input and output are views of the SAME memory with different strides (in-place transposition through "
                             "the four-argument dft); neither the adaptor's README nor the library's documents such aliasing (the library's README calls overlapping "
                             "sources and destinations undefined), so no check demands it",
                 "C15-r5-2": "NOT REACHED, not out of domain: the change needs a stride of 2^31 elements or more (a view of an array of >= 32 GiB); the replayer logs "
                             "whole buffers before and after each call and works with arrays of at most a few hundred elements. Recorded as a limit of the bounded model in DESIGN.md",
                 "C08-r4-1": "the change only manifests when an array is assigned a view of ITSELF (A = A({1,4},{2,5})); the README documents "
                             "assignment with overlapping right- and left-hand sides as undefined behaviour ('Copy and assignment (and aliasing)')"}
ids = sys.argv[1:] or sorted(os.listdir(os.path.join(V, "seeded")))
for sid in ids:
    d = os.path.join(V, "seeded", sid)
    if not os.path.isdir(d):
        continue
    prop = sid.split("-")[0]
    patch = os.path.join(d, "patch_ported.diff") if os.path.exists(os.path.join(d, "patch_ported.diff")) else os.path.join(d, "patch.diff")
    scratch = "/tmp/seedrun_" + sid
    shutil.rmtree(scratch, ignore_errors=True)
    os.makedirs(scratch)
    shutil.copytree("/repo/include", os.path.join(scratch, "include"))
    ap = subprocess.run(["patch", "-p1", "-s", "-d", scratch, "-i", patch], stdout=subprocess.PIPE, stderr=subprocess.STDOUT, text=True)
    meta = {"seed": sid, "property": prop, "patch_used": os.path.basename(patch)}
    notes = os.path.join(d, "NOTES.md")
    if os.path.exists(notes):
        txt = open(notes).read()
        meta["needs_to_manifest"] = " ".join(txt.split())[:900]
    if os.path.exists(os.path.join(d, "verify.json")):
        meta["confirmed_in_scratch_worktree"] = json.load(open(os.path.join(d, "verify.json")))
    if ap.returncode != 0:
        meta["applies_to_current_tree"] = False
        meta["apply_output"] = ap.stdout[-400:]
        meta["note"] = "the patch was written against an earlier /repo commit and the lines it touches were changed by a fix: commit; see patch_ported.diff if present"
    else:
        meta["applies_to_current_tree"] = True
        env = dict(os.environ, VERIF_REPO=scratch)
        p = subprocess.run([os.path.join(V, "bin", "vcheck"), prop, "--tier", "quick"], stdout=subprocess.PIPE, stderr=subprocess.STDOUT, text=True, env=env, cwd=V)
        sigs = re.findall(r"signature: (\{.*\})", p.stdout)
        meta["ran"] = "VERIF_REPO=<scratch copy of /repo/include with the patch> bin/vcheck %s --tier quick" % prop
        meta["quick_rc"] = p.returncode
        meta["detected"] = p.returncode == 1
        meta["violation_lines"] = p.stdout.count("VIOLATION property=")
        meta["first_signatures"] = sigs[:4]
        if p.returncode not in (0, 1):
            meta["output_tail"] = p.stdout[-600:]
        meta["detected_by"] = [prop] if p.returncode == 1 else []
        for sib in SIBLINGS.get(sid, []):
            q = subprocess.run([os.path.join(V, "bin", "vcheck"), sib, "--tier", "quick"], stdout=subprocess.PIPE, stderr=subprocess.STDOUT, text=True, env=env, cwd=V)
            meta.setdefault("siblings", {})[sib] = {"quick_rc": q.returncode, "violation_lines": q.stdout.count("VIOLATION property="),
                                                     "first_signatures": re.findall(r"signature: (\{.*\})", q.stdout)[:3]}
            if q.returncode == 1:
                meta["detected_by"].append(sib)
        meta["detected"] = bool(meta["detected_by"])
    if sid in OUT_OF_DOMAIN:
        meta["out_of_documented_domain"] = OUT_OF_DOMAIN[sid]
    with open(os.path.join(d, "meta.json"), "w") as f:
        json.dump(meta, f, indent=1)
    shutil.rmtree(scratch, ignore_errors=True)
    import hashlib
    shutil.rmtree(os.path.join(V, "build_" + hashlib.sha1(os.path.realpath(scratch).encode()).hexdigest()[:8]), ignore_errors=True)
    print(sid, "applies" if meta.get("applies_to_current_tree") else "DOES-NOT-APPLY", ("detected by %s" % meta.get("detected_by")) if meta.get("detected") else "rc=%s" % meta.get("quick_rc"), flush=True)
subprocess.run("rm -rf /verif/build_*", shell=True)
