#!/bin/bash
# run every registered check of a tier on /repo, one after the other; prints rc and wall time per check
tier=${1:-quick}; shift
ids=${@:-C01 C02 C03 C04 C05 C06 C07 C08 C09 C10 C11 C12 C13 C14 C15 C16 C17 C18 C19 C20}
mkdir -p /verif/build/runall
for id in $ids; do
  t0=$(date +%s)
  /verif/bin/vcheck $id --tier $tier > /verif/build/runall/$id.$tier.log 2>&1
  rc=$?
  t1=$(date +%s)
  echo "$id $tier rc=$rc $((t1-t0))s viol=$(grep -c '^VIOLATION' /verif/build/runall/$id.$tier.log) known=$(grep -c '^KNOWN-FINDING' /verif/build/runall/$id.$tier.log)"
done
