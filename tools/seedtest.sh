#!/bin/bash
# usage: tools/seedtest.sh <patch.diff> <PROP> [<PROP>...]   -- apply a seeded change to /repo, run the quick checks, undo
set -u
patch="$1"; shift
if ! git -C /repo apply --check "$patch" 2>/dev/null; then echo "PATCH DOES NOT APPLY: $patch"; exit 3; fi
git -C /repo apply "$patch"
trap 'git -C /repo checkout -- . ' EXIT
for p in "$@"; do
  out=$(/verif/bin/vcheck "$p" --tier "${TIER:-quick}" 2>&1); rc=$?
  echo "== $p rc=$rc  $(echo "$out" | grep -c '^VIOLATION') violation lines"
  echo "$out" | grep -E "signature|BROKEN" | head -${SHOW:-4}
done
