#!/bin/bash
# commit my work, leaving out files other builders are still working on
cd /verif
git add -A -- . ':!specs/Fftw*' ':!harness/*fftw*' ':!tools/checks/c15.py' 2>/dev/null
git commit -qm "$1" && echo committed
