#!/bin/bash
cd /verif
git add -A -- . 2>/dev/null
git commit -qm "$1" && echo committed
