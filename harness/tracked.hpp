// placeholder, filled in with the C08 work
#ifndef VERIF_TRACKED_HPP
#define VERIF_TRACKED_HPP
#endif
