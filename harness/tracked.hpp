// tracked.hpp -- an element type with observable special members and an observing allocator.
// These are USER-SUPPLIED types (no hook inside the library): every allocation, deallocation,
// element construction, assignment and destruction the library performs on them is appended
// to an ndjson event log, which specs/LifecycleTrace.tla validates (properties C08, C09, C10).
//
// Fault injection (C09): when armed, the k-th injection point (allocation, element
// construction or assignment) throws.
#ifndef VERIF_TRACKED_HPP
#define VERIF_TRACKED_HPP

#include <cstddef>
#include <cstdio>
#include <map>
#include <memory>
#include <new>
#include <sstream>
#include <stdexcept>
#include <string>
#include <type_traits>
#include <utility>
#include <vector>

namespace verif {

struct injected : std::runtime_error { injected() : std::runtime_error("injected element fault") {} };

struct block_info { long id; long n; std::size_t elem_size; };

struct ledger_t {
	std::ostringstream log;               // the event log of the current history
	std::map<char const*, block_info> blocks;  // live blocks by base address
	std::map<void const*, long> stack;    // live tracked objects outside any block
	long next_blk = 0;
	long next_stack = 0;
	bool armed = false;                   // injection points count only while a library operation runs
	long countdown = -1;                  // < 0: no fault; == 0 at an injection point: throw
	long points = 0;                      // injection points seen while armed
	bool quiet = false;                   // suppress element events of harness-made temporaries? (kept: they are validated too)

	void reset() {
		log.str(""); log.clear();
		blocks.clear(); stack.clear();
		next_blk = 0; next_stack = 0; armed = false; countdown = -1; points = 0;
	}
	// (block id, index) of an address, or (-1, stack id)
	std::pair<long, long> locate(void const* p, bool creating) {
		auto const* c = static_cast<char const*>(p);
		auto it = blocks.upper_bound(c);
		if(it != blocks.begin()) {
			--it;
			auto const& b = it->second;
			if(c >= it->first && c < it->first + b.n * static_cast<long>(b.elem_size)) {
				return {b.id, static_cast<long>((c - it->first) / static_cast<long>(b.elem_size))};
			}
		}
		auto st = stack.find(p);
		if(st != stack.end()) { return {-1, st->second}; }
		if(creating) { long id = next_stack++; stack[p] = id; return {-1, id}; }
		return {-1, -1};  // not a live object we know of
	}
	void forget_stack(void const* p) { stack.erase(p); }
	bool hit() {  // an injection point; returns true when it must throw
		if(!armed) { return false; }
		++points;
		if(countdown < 0) { return false; }
		if(countdown == 0) { countdown = -1; return true; }
		--countdown;
		return false;
	}
};

inline ledger_t& ledger() { static ledger_t l; return l; }

// -DVERIF_TRACKED_NOEXCEPT_MOVE: the element's moves are noexcept and cannot fail, its copies can (like std::string or
// std::vector): code that declares itself noexcept on the strength of the move but copies is then exposed
#ifdef VERIF_TRACKED_NOEXCEPT_MOVE
#define VERIF_MOVE_NOEXCEPT noexcept
#define VERIF_MOVE_HIT() false
#else
#define VERIF_MOVE_NOEXCEPT noexcept(false)
#define VERIF_MOVE_HIT() ledger().hit()
#endif

class tracked {
	int v_ = 0;
	static void ev(char const* what, char const* how, void const* self, void const* src, bool creating) {
		auto& L = ledger();
		auto me = L.locate(self, creating);
		L.log << "{\"e\":\"" << what << "\",\"how\":\"" << how << "\",\"blk\":" << me.first << ",\"i\":" << me.second;
		if(src != nullptr) { auto s = L.locate(src, false); L.log << ",\"sblk\":" << s.first << ",\"si\":" << s.second; }
		else { L.log << ",\"sblk\":-2,\"si\":-2"; }
		L.log << "}\n";
	}

 public:
	tracked() { if(ledger().hit()) { throw injected{}; } ev("Ctor", "default", this, nullptr, true); }
	explicit tracked(int v) : v_{v} { ev("Ctor", "value", this, nullptr, true); }
	tracked(tracked const& o) : v_{o.v_} { if(ledger().hit()) { throw injected{}; } ev("Ctor", "copy", this, &o, true); }
	tracked(tracked&& o) VERIF_MOVE_NOEXCEPT : v_{o.v_} { if(VERIF_MOVE_HIT()) { throw injected{}; } ev("Ctor", "move", this, &o, true); o.v_ = -2; }
	auto operator=(tracked const& o) -> tracked& { if(ledger().hit()) { throw injected{}; } ev("Assign", "copy", this, &o, false); v_ = o.v_; return *this; }
	auto operator=(tracked&& o) VERIF_MOVE_NOEXCEPT -> tracked& { if(VERIF_MOVE_HIT()) { throw injected{}; } ev("Assign", "move", this, &o, false); v_ = o.v_; if(&o != this) { o.v_ = -2; } return *this; }
	~tracked() { ev("Dtor", "-", this, nullptr, false); ledger().forget_stack(this); }
	int value() const { return v_; }
	friend bool operator==(tracked const& a, tracked const& b) { return a.v_ == b.v_; }
	friend bool operator!=(tracked const& a, tracked const& b) { return a.v_ != b.v_; }
	friend bool operator<(tracked const& a, tracked const& b) { return a.v_ < b.v_; }
};

// allocator traits are template parameters so that C10 can instantiate the whole lattice
template<class U, bool POCCA = false, bool POCMA = false, bool POCS = false, bool AlwaysEqual = false>
struct ledger_allocator {
	using value_type = U;
	using propagate_on_container_copy_assignment = std::integral_constant<bool, POCCA>;
	using propagate_on_container_move_assignment = std::integral_constant<bool, POCMA>;
	using propagate_on_container_swap = std::integral_constant<bool, POCS>;
	using is_always_equal = std::integral_constant<bool, AlwaysEqual>;
	template<class V> struct rebind { using other = ledger_allocator<V, POCCA, POCMA, POCS, AlwaysEqual>; };

	int id = 0;    // instance identity (for reporting)
	int cls = 0;   // equality class: instances compare equal iff same class (or AlwaysEqual)

	ledger_allocator() = default;
	ledger_allocator(int id_, int cls_) : id{id_}, cls{cls_} {}
	template<class V> ledger_allocator(ledger_allocator<V, POCCA, POCMA, POCS, AlwaysEqual> const& o) noexcept : id{o.id}, cls{o.cls} {}  // NOLINT

	// copy construction of a container goes through this; instances of class c select class c (id + 100 marks "selected")
	ledger_allocator select_on_container_copy_construction() const { return ledger_allocator{id % 100 + 100, cls}; }   // "a selected copy of instance id % 100" (ArrayOps!Select)

#ifdef VERIF_ALLOC_CONSTRUCT_FAULTS
	// an allocator that builds the elements itself and can fail doing so (as uses-allocator construction through a
	// std::pmr::polymorphic_allocator can, even for an element whose own move constructor is noexcept)
	template<class V, class... As> void construct(V* p, As&&... as) {
		if(ledger().hit()) { throw injected{}; }
		::new(static_cast<void*>(p)) V(std::forward<As>(as)...);
	}
#endif

	U* allocate(std::size_t n) {
		auto& L = ledger();
		if(L.hit()) { throw std::bad_alloc{}; }
		U* p = std::allocator<U>{}.allocate(n);
		long blk = L.next_blk++;
		L.blocks[reinterpret_cast<char const*>(p)] = block_info{blk, static_cast<long>(n), sizeof(U)};
		L.log << "{\"e\":\"Alloc\",\"how\":\"-\",\"blk\":" << blk << ",\"i\":" << n << ",\"sblk\":" << id << ",\"si\":" << cls << "}\n";
		return p;
	}
	void deallocate(U* p, std::size_t n) noexcept {
		auto& L = ledger();
		auto it = L.blocks.find(reinterpret_cast<char const*>(p));
		long blk = it == L.blocks.end() ? -1 : it->second.id;
		L.log << "{\"e\":\"Dealloc\",\"how\":\"-\",\"blk\":" << blk << ",\"i\":" << n << ",\"sblk\":" << id << ",\"si\":" << cls << "}\n";
		if(it != L.blocks.end()) { L.blocks.erase(it); std::allocator<U>{}.deallocate(p, n); }
		// an unknown pointer is reported (blk -1) and not passed on to the real allocator
	}
	friend bool operator==(ledger_allocator const& a, ledger_allocator const& b) noexcept { return AlwaysEqual || a.cls == b.cls; }
	friend bool operator!=(ledger_allocator const& a, ledger_allocator const& b) noexcept { return !(a == b); }
};

// block id owning a data pointer (or -1), for OpEnd handle records
inline long block_of(void const* p) {
	auto& L = ledger();
	auto it = L.blocks.find(static_cast<char const*>(p));
	return it == L.blocks.end() ? -1 : it->second.id;
}

}  // namespace verif
#endif
