// ptrs.hpp -- user-defined pointer types for property C11.
//   vptr::fancy<T, false> : minimal fancy pointer: a class type with its own arithmetic, comparison and
//                           dereference, NO implicit conversion to or from T*, plain T& references
//   vptr::fancy<T, true>  : the same, carrying the bounds of the block it was derived from; it RECORDS an event
//                           for any dereference outside the block (or of a null pointer), and for arithmetic or
//                           comparison between pointers of different blocks
//   vptr::alloc<T, C>     : allocator whose `pointer` is fancy<T, C>
// Harness-only escape hatches (never used by the library): vptr::raw(p), fancy(unconst_t, p).
#ifndef VERIF_PTRS_HPP
#define VERIF_PTRS_HPP

#include <cstddef>
#include <iterator>
#include <memory>
#include <string>
#include <type_traits>

namespace vptr {

struct events_t {
	long oob_deref = 0, null_deref = 0, cross_block = 0;
	std::string first;
	void reset() { oob_deref = null_deref = cross_block = 0; first.clear(); }
	long total() const { return oob_deref + null_deref + cross_block; }
};
inline events_t& events() { static events_t e; return e; }

struct unconst_t {};

template<class T> struct alloc_base;

template<class T, bool Checking>
class fancy {
	T* p_ = nullptr;
	char const* lo_ = nullptr;  // block bounds (bytes); only meaningful when Checking
	char const* hi_ = nullptr;
	template<class, bool> friend class fancy;

	void check_deref(T* q) const {
		if constexpr(Checking) {
			if(q == nullptr || lo_ == nullptr) { ++events().null_deref; if(events().first.empty()) { events().first = "dereference of a null pointer"; } return; }
			auto const* c = reinterpret_cast<char const*>(q);
			if(c < lo_ || c + sizeof(T) > hi_) { ++events().oob_deref; if(events().first.empty()) { events().first = "dereference outside the block"; } }
		}
	}
	template<class U> void check_same(fancy<U, Checking> const& o) const {
		if constexpr(Checking) {
			if(lo_ != nullptr && o.lo_ != nullptr && lo_ != o.lo_) { ++events().cross_block; if(events().first.empty()) { events().first = "arithmetic/comparison between different blocks"; } }
		}
	}

 public:
	using element_type = T;
	using value_type = std::remove_cv_t<T>;
	using difference_type = std::ptrdiff_t;
	using reference = T&;
	using pointer = fancy;
	using iterator_category = std::random_access_iterator_tag;
	template<class U> using rebind = fancy<U, Checking>;
	using default_allocator_type = std::allocator<std::remove_cv_t<T>>;  // what decay()/operator+ of a view over this pointer allocates with

	fancy() = default;
	fancy(std::nullptr_t) {}  // NOLINT
	fancy(T* p, void const* lo, void const* hi) : p_{p}, lo_{static_cast<char const*>(lo)}, hi_{static_cast<char const*>(hi)} {}  // harness / allocator only
	template<class U, std::enable_if_t<std::is_convertible_v<U*, T*> && !std::is_same_v<U, T>, int> = 0>
	fancy(fancy<U, Checking> const& o) : p_{o.p_}, lo_{o.lo_}, hi_{o.hi_} {}  // NOLINT: T -> T const, like raw pointers
	template<class U, std::enable_if_t<!std::is_convertible_v<U*, T*>, int> = 0>
	explicit fancy(fancy<U, Checking> const& o) : p_{reinterpret_cast<T*>(const_cast<std::remove_cv_t<U>*>(o.p_))}, lo_{o.lo_}, hi_{o.hi_} {}  // explicit casts (reinterpret/static_array_cast)
	fancy(unconst_t, fancy<T const, Checking> const& o) : p_{const_cast<T*>(o.p_)}, lo_{o.lo_}, hi_{o.hi_} {}  // harness only

	reference operator*() const { check_deref(p_); return *p_; }
	T* operator->() const { check_deref(p_); return p_; }
	reference operator[](difference_type n) const { check_deref(p_ + n); return p_[n]; }

	fancy& operator+=(difference_type n) { p_ += n; return *this; }
	fancy& operator-=(difference_type n) { p_ -= n; return *this; }
	fancy& operator++() { ++p_; return *this; }
	fancy& operator--() { --p_; return *this; }
	fancy operator++(int) { fancy t = *this; ++p_; return t; }
	fancy operator--(int) { fancy t = *this; --p_; return t; }
	friend fancy operator+(fancy a, difference_type n) { a += n; return a; }
	friend fancy operator+(difference_type n, fancy a) { a += n; return a; }
	friend fancy operator-(fancy a, difference_type n) { a -= n; return a; }
	template<class U> friend auto operator-(fancy const& a, fancy<U, Checking> const& b) -> std::enable_if_t<std::is_same_v<std::remove_cv_t<U>, std::remove_cv_t<T>>, difference_type> { a.check_same(b); return a.p_ - b.p_; }

	template<class U> friend bool operator==(fancy const& a, fancy<U, Checking> const& b) { return a.p_ == b.p_; }
	template<class U> friend bool operator!=(fancy const& a, fancy<U, Checking> const& b) { return a.p_ != b.p_; }
	template<class U> friend bool operator<(fancy const& a, fancy<U, Checking> const& b) { a.check_same(b); return a.p_ < b.p_; }
	template<class U> friend bool operator>(fancy const& a, fancy<U, Checking> const& b) { a.check_same(b); return a.p_ > b.p_; }
	template<class U> friend bool operator<=(fancy const& a, fancy<U, Checking> const& b) { a.check_same(b); return a.p_ <= b.p_; }
	template<class U> friend bool operator>=(fancy const& a, fancy<U, Checking> const& b) { a.check_same(b); return a.p_ >= b.p_; }
	friend bool operator==(fancy const& a, std::nullptr_t) { return a.p_ == nullptr; }
	friend bool operator!=(fancy const& a, std::nullptr_t) { return a.p_ != nullptr; }
	friend bool operator==(std::nullptr_t, fancy const& a) { return a.p_ == nullptr; }
	friend bool operator!=(std::nullptr_t, fancy const& a) { return a.p_ != nullptr; }
	explicit operator bool() const { return p_ != nullptr; }

	static fancy pointer_to(T& r) { return fancy(std::addressof(r), nullptr, nullptr); }  // required by the fancy-pointer requirements

	// harness-only: the raw address, without any check
	friend T* raw(fancy const& p) { return p.p_; }
};

template<class T> T* raw(T* p) { return p; }

template<class T, bool Checking>
struct alloc {
	using value_type = T;
	using pointer = fancy<T, Checking>;
	using const_pointer = fancy<T const, Checking>;
	using void_pointer = fancy<void, Checking>;
	using difference_type = std::ptrdiff_t;
	using size_type = std::size_t;
	template<class U> struct rebind { using other = alloc<U, Checking>; };
	alloc() = default;
	template<class U> alloc(alloc<U, Checking> const& /*o*/) noexcept {}  // NOLINT
	pointer allocate(size_type n) {
		T* p = std::allocator<T>{}.allocate(n == 0 ? 1 : n);   // a distinct block even for zero elements
		return pointer(p, p, p + n);
	}
	pointer allocate(size_type n, const_pointer /*hint*/) { return allocate(n); }
	void deallocate(pointer p, size_type n) noexcept { std::allocator<T>{}.deallocate(raw(p), n == 0 ? 1 : n); }
	friend bool operator==(alloc const& /*a*/, alloc const& /*b*/) noexcept { return true; }
	friend bool operator!=(alloc const& /*a*/, alloc const& /*b*/) noexcept { return false; }
};

}  // namespace vptr

// void specialisation is needed for void_pointer in allocator_traits
namespace vptr {
template<bool Checking> class fancy<void, Checking> {
	void* p_ = nullptr;
 public:
	using element_type = void;
	template<class U> using rebind = fancy<U, Checking>;
	fancy() = default;
	fancy(std::nullptr_t) {}  // NOLINT
	template<class U> fancy(fancy<U, Checking> const& o) : p_{raw(o)} {}  // NOLINT
};
template<bool Checking> class fancy<void const, Checking> {
	void const* p_ = nullptr;
 public:
	using element_type = void const;
	template<class U> using rebind = fancy<U, Checking>;
	fancy() = default;
	fancy(std::nullptr_t) {}  // NOLINT
	template<class U> fancy(fancy<U, Checking> const& o) : p_{raw(o)} {}  // NOLINT
};
}  // namespace vptr

#endif
