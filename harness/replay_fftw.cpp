// Replayer for property C15 (FFTW adaptor).  Executes one adaptor call per input line on the real
// library and prints observations only: the store cells the input/output views designate (through
// the views' own operator[]), and the whole store (both root buffers with their guard cells) before
// and after the call, in fixed point (scale 256).  No expected values in here; the oracle is
// specs/Fftw.tla.
//
// input:  C <id> <seed> <mode> <sign> <D> <sizes..> <which..> I <layout> O <layout>
//         layout = <rootD> <root sizes..> <nops> {<op> <nargs> <args..>}
//         ops (library view operations): rotated unrotated transposed reversed strided(s) index(i)
//                                        paren(1 a b 1 a b ...)   = v({a,b},{a,b},...)
//         modes: dft       fftw::dft(which, in, out, sign)
//                fb        fftw::dft_forward / dft_backward(which, in, out)
//                plan      fftw::plan::forward/backward(which, in.base(), in.layout(), out.base(), out.layout()).execute(in.base(), out.base())
//                lazy      out = multi::fft::dft(which, in, sign)             (adaptors/fft.hpp)
//                lazy_fwd  out = multi::fft::dft_forward(which, in)
//                lazy_all  out = multi::fft::dft_all(in) / idft_all(in)       (every dimension transformed)
//                round     dft_forward(which, in, out); dft_backward(which, out, in)
//                inplace   fftw::dft(which, io, sign)                         (in-place overload)
//                inplace_b fftw::dft_backward(which, io)
//                same      fftw::dft(which, io, io, sign)
// output: {"id":..,"st":"ok"|"abort"|"exception"|"unsupported","mode":..,"sh":[..],"which":[..],"sign":s,
//          "abase":cell of the input root's first element,"bbase":same for the output root,
//          "icells":[..],"ocells":[..],"istr":[strides() of the input view],"ostr":[..],"pre":[re,im,..],"mid":[..] (round),"post":[..],"wild":number of changed cells in the slack around the store,
//          "ev":[{"k":"plan","p":plan number,"dims":[[n,is,os]..],"hdims":[..],"in":cell,"out":cell,"sign":s,"flags":f},
//                {"k":"exec","p":..,"in":cell,"out":cell},{"k":"destroy","p":..}]  (the intercepted FFTW calls, when interposed),
//          "mem":[elements asked from multi::fftw::allocator, fftw_malloc calls, bytes requested, fftw_free calls, frees of non-live pointers],
//          "allocs":n,"deallocs":n}
#include "guard.hpp"

#include <boost/multi/adaptors/fft.hpp>
#include <boost/multi/adaptors/fftw.hpp>
#include <boost/multi/array.hpp>

#include <sys/wait.h>
#include <unistd.h>

#include <cmath>
#include <complex>
#include <iostream>
#include <sstream>
#include <string>
#include <variant>
#include <vector>

namespace multi = boost::multi;
using C = std::complex<double>;

// log of the FFTW guru calls (harness/replay_fftw_interpose.c); present when linked with VERIF_FFTW_INTERPOSE defined
#ifdef VERIF_FFTW_INTERPOSE
extern "C" {
struct fx_dim { std::ptrdiff_t n, is, os; };
struct fx_event { int kind; void* plan; int rank, hrank; fx_dim dims[8], hdims[8]; void *in, *out; int sign; unsigned flags; };
void fftwx_mem_reset(void);
int fftwx_mallocs(void);
int fftwx_frees(void);
int fftwx_badfrees(void);
long fftwx_bytes(void);
int fftwx_count(void);
int fftwx_lost(void);
fx_event const* fftwx_event(int i);
void fftwx_reset(void);
}
static void dump_events(std::ostream& os, C const* store) {
	std::vector<void*> plans;
	auto pid = [&](void* p) { for(std::size_t k = 0; k != plans.size(); ++k) { if(plans[k] == p) { return static_cast<long>(k); } } plans.push_back(p); return static_cast<long>(plans.size() - 1); };
	auto cell = [&](void* p) { return static_cast<long>(static_cast<C const*>(p) - store); };
	os << ",\"lost\":" << fftwx_lost() << ",\"ev\":[";
	for(int i = 0; i != fftwx_count(); ++i) {
		fx_event const& e = *fftwx_event(i);
		if(i) { os << ','; }
		if(e.kind == 0) {
			os << "{\"k\":\"plan\",\"p\":" << pid(e.plan) << ",\"null\":" << (e.plan == nullptr ? 1 : 0) << ",\"dims\":[";
			for(int k = 0; k < e.rank && k < 8; ++k) { os << (k ? "," : "") << '[' << e.dims[k].n << ',' << e.dims[k].is << ',' << e.dims[k].os << ']'; }
			os << "],\"hdims\":[";
			for(int k = 0; k < e.hrank && k < 8; ++k) { os << (k ? "," : "") << '[' << e.hdims[k].n << ',' << e.hdims[k].is << ',' << e.hdims[k].os << ']'; }
			os << "],\"in\":" << cell(e.in) << ",\"out\":" << cell(e.out) << ",\"sign\":" << e.sign << ",\"flags\":" << e.flags << '}';
		} else if(e.kind == 1) {
			os << "{\"k\":\"exec\",\"p\":" << pid(e.plan) << ",\"in\":" << cell(e.in) << ",\"out\":" << cell(e.out) << '}';
		} else {
			os << "{\"k\":\"destroy\",\"p\":" << pid(e.plan) << '}';
		}
	}
	os << ']';
}
#endif

constexpr int MAXD = 5;   // dimensionality of roots
constexpr int MAXT = 4;   // dimensionality of transformed views
constexpr long G = 2;     // logged guard cells around each root
constexpr long SLACK = 256;  // unlogged cells before and after the store; only the number of changed ones is reported ("wild")

template<int D> using view_t = multi::subarray<C, D>;
using any_view = std::variant<std::monostate, view_t<1>, view_t<2>, view_t<3>, view_t<4>, view_t<5>>;

struct unsupported { std::string why; };
struct prim { std::string name; std::vector<long> a; };
struct layout_prog { int rootD = 0; std::vector<long> root; std::vector<prim> ops; };

template<class R> auto norm(R&& r) {
	constexpr int DD = std::decay_t<R>::rank_v;
	return view_t<DD>(r.layout(), const_cast<C*>(r.base()));
}

template<int D, std::size_t... K> auto make_ext(std::vector<long> const& s, std::index_sequence<K...> /*u*/) { return multi::extensions_t<D>{multi::iextension(0, s[K])...}; }
template<int D, std::size_t... K> auto block(view_t<D>& v, std::vector<long> const& a, std::index_sequence<K...> /*u*/) {
	return norm(v(multi::irange(a[3 * K + 1], a[3 * K + 2])...));
}

template<int D> void apply_prim(view_t<D>& cur, prim const& o, any_view& out) {
	auto const& n = o.name;
	if(n == "rotated") { out.template emplace<view_t<D>>(norm(cur.rotated())); }
	else if(n == "unrotated") { out.template emplace<view_t<D>>(norm(cur.unrotated())); }
	else if(n == "reversed") { out.template emplace<view_t<D>>(norm(cur.reversed())); }
	else if(n == "strided") { out.template emplace<view_t<D>>(norm(cur.strided(o.a.at(0)))); }
	else if(n == "transposed") {
		if constexpr(D >= 2) { out.template emplace<view_t<D>>(norm(cur.transposed())); } else { throw unsupported{"transposed D<2"}; }
	} else if(n == "index") {
		if constexpr(D >= 2) { out.template emplace<view_t<D - 1>>(norm(cur[o.a.at(0)])); } else { throw unsupported{"index D<2"}; }
	} else if(n == "paren") {
		if(o.a.size() != 3U * D) { throw unsupported{"paren arity"}; }
		for(int k = 0; k != D; ++k) { if(o.a[3 * static_cast<std::size_t>(k)] != 1) { throw unsupported{"paren kind"}; } }
		out.template emplace<view_t<D>>(block<D>(cur, o.a, std::make_index_sequence<D>{}));
	} else { throw unsupported{"unknown op " + n}; }
}

static layout_prog parse_layout(std::istream& is) {
	layout_prog p;
	is >> p.rootD;
	p.root.resize(static_cast<std::size_t>(p.rootD));
	for(auto& s : p.root) { is >> s; }
	std::size_t nops = 0; is >> nops;
	p.ops.resize(nops);
	for(auto& o : p.ops) {
		std::size_t na = 0; is >> o.name >> na;
		o.a.resize(na);
		for(auto& x : o.a) { is >> x; }
	}
	return p;
}

static long prod(std::vector<long> const& v) { long r = 1; for(auto x : v) { r *= x; } return r; }

// root over [base, base + prod(root)) and the view program applied to it
static void build_view(layout_prog const& p, C* base, any_view& cur) {
	switch(p.rootD) {
	case 1: cur.emplace<view_t<1>>(norm(multi::array_ref<C, 1>(base, make_ext<1>(p.root, std::make_index_sequence<1>{})))); break;
	case 2: cur.emplace<view_t<2>>(norm(multi::array_ref<C, 2>(base, make_ext<2>(p.root, std::make_index_sequence<2>{})))); break;
	case 3: cur.emplace<view_t<3>>(norm(multi::array_ref<C, 3>(base, make_ext<3>(p.root, std::make_index_sequence<3>{})))); break;
	case 4: cur.emplace<view_t<4>>(norm(multi::array_ref<C, 4>(base, make_ext<4>(p.root, std::make_index_sequence<4>{})))); break;
	case 5: cur.emplace<view_t<5>>(norm(multi::array_ref<C, 5>(base, make_ext<5>(p.root, std::make_index_sequence<5>{})))); break;
	default: throw unsupported{"root dimensionality"};
	}
	for(auto const& o : p.ops) {
		any_view next;
		std::visit([&](auto& v) {
			using V = std::decay_t<decltype(v)>;
			if constexpr(std::is_same_v<V, std::monostate>) { throw unsupported{"no view"}; }
			else { apply_prim<V::rank_v>(v, o, next); }
		}, cur);
		std::visit([&](auto& nv) {
			using V = std::decay_t<decltype(nv)>;
			if constexpr(std::is_same_v<V, std::monostate>) { throw unsupported{"no result"}; }
			else { cur.template emplace<V>(std::move(nv)); }
		}, next);
	}
}

// store cells designated by the view, canonical order, through chained operator[]
template<class V> void cells_of(V&& v, C const* store, std::vector<long>& out) {
	using VV = std::decay_t<V>;
	auto const n = v.size();
	for(multi::index i = 0; i != n; ++i) {
		if constexpr(VV::rank_v == 1) { out.push_back(static_cast<long>(&v[i] - store)); }
		else { cells_of(v[i], store, out); }
	}
}

template<class Tup, std::size_t... K> void tupv(Tup const& t, std::vector<long>& out, std::index_sequence<K...> /*u*/) {
	using boost::multi::detail::get;
	(out.push_back(static_cast<long>(get<K>(t))), ...);
}

static long fix(double x) {
	if(!(std::fabs(x) < 4000.0)) { return 1048000; }  // NaN, infinity or out of the exact range: a value no exact result can have
	return std::lround(x * 256.0);
}
static void dump(std::ostream& os, char const* key, C const* store, long n) {
	os << ",\"" << key << "\":[";
	for(long i = 0; i != n; ++i) { if(i) { os << ','; } os << fix(store[i].real()) << ',' << fix(store[i].imag()); }
	os << ']';
}
static void jlist(std::ostream& os, std::vector<long> const& v) {
	os << '[';
	for(std::size_t i = 0; i != v.size(); ++i) { if(i) { os << ','; } os << v[i]; }
	os << ']';
}

struct lcg {
	unsigned long s;
	long next(long m) { s = s * 6364136223846793005UL + 1442695040888963407UL; return static_cast<long>((s >> 33) % static_cast<unsigned long>(m)); }
};

struct case_t { long id = 0; unsigned long seed = 0; std::string mode; int sign = 0; int D = 0; std::vector<long> sh, which; layout_prog in, out; };

template<int D, std::size_t... K> auto make_which(std::vector<long> const& w, std::index_sequence<K...> /*u*/) { return std::array<bool, D>{(w[K] != 0)...}; }

// the call under observation; `mid` is called between the two calls of mode "round"
template<int D, class Mid> void call_adaptor(case_t const& c, view_t<D>& in, view_t<D>& out, Mid&& mid) {
	auto const which = make_which<D>(c.which, std::make_index_sequence<D>{});
	multi::fftw::sign const sg = c.sign == -1 ? multi::fftw::forward : multi::fftw::backward;
	auto const& m = c.mode;
	if(m == "dft") { multi::fftw::dft(which, in, out, sg); }
	else if(m == "fb") {
		view_t<D> const& cin = in;  // a const input selects the (which, A const&, O&&) overload of dft_backward; mode "round" reaches the variadic one
		if(c.sign == -1) { multi::fftw::dft_forward(which, cin, out); } else { multi::fftw::dft_backward(which, cin, out); }
	} else if(m == "plan") {
		if(c.sign == -1) {
			auto const pln = multi::fftw::plan::forward(which, in.base(), in.layout(), out.base(), out.layout());
			pln.execute(in.base(), out.base());
		} else {
			auto const pln = multi::fftw::plan::backward(which, in.base(), in.layout(), out.base(), out.layout());
			pln.execute(in.base(), out.base());
		}
	} else if(m == "lazy") {
		if constexpr(D >= 2) {
			view_t<D> const& cin = in;
			out = multi::fft::dft(which, cin, c.sign == -1 ? multi::fft::forward : multi::fft::backward);
		} else { throw unsupported{"lazy D<2"}; }
	} else if(m == "lazy_fwd") {
		if constexpr(D >= 2) {
			view_t<D> const& cin = in;
			out = multi::fft::dft_forward(which, cin);
		} else { throw unsupported{"lazy D<2"}; }
	} else if(m == "lazy_all") {  // generated only with every dimension transformed
		if constexpr(D >= 2) {
			view_t<D> const& cin = in;
			for(bool w : which) { if(!w) { throw unsupported{"lazy_all with a partial mask"}; } }
			if(c.sign == -1) { out = multi::fft::dft_all(cin); } else { out = multi::fft::idft_all(cin); }
		} else { throw unsupported{"lazy D<2"}; }
	} else if(m == "round") {
		multi::fftw::dft_forward(which, in, out);
		mid();
		multi::fftw::dft_backward(which, out, in);
	} else if(m == "inplace") { multi::fftw::dft(which, in, sg); }
	else if(m == "inplace_b") { multi::fftw::dft_backward(which, in); }
	else if(m == "same") { multi::fftw::dft(which, in, in, sg); }
	else { throw unsupported{"mode " + m}; }
}

static long g_allocs = 0, g_deallocs = 0;

static void run_case(case_t const& c, std::ostream& os) {
	long const nA = prod(c.in.root), nB = prod(c.out.root);
	long const total = G + nA + G + nB + G;
	multi::fftw::allocator<C> alloc;
#ifdef VERIF_FFTW_INTERPOSE
	fftwx_mem_reset();
#endif
	C* block = alloc.allocate(static_cast<std::size_t>(total + 2 * SLACK)); ++g_allocs;
	C* store = block + SLACK;
	lcg rng{c.seed * 2654435761UL + static_cast<unsigned long>(c.id) * 40503UL + 12345UL};
	for(long i = 0; i != total; ++i) { store[i] = C{static_cast<double>(rng.next(7) - 3), static_cast<double>(rng.next(7) - 3)}; }
	C const slack_value{-77.0, 77.0};
	for(long i = 0; i != SLACK; ++i) { block[i] = slack_value; block[SLACK + total + i] = slack_value; }
	long const abase = G, bbase = G + nA + G;
	bool const inplace = c.mode == "inplace" || c.mode == "inplace_b" || c.mode == "same";

	os << "{\"id\":" << c.id << ",\"mode\":\"" << c.mode << "\",\"sign\":" << c.sign << ",\"sh\":"; jlist(os, c.sh);
	os << ",\"which\":"; jlist(os, c.which);
	os << ",\"abase\":" << abase << ",\"bbase\":" << bbase;
	std::string st = "ok", why;
	try {
		any_view vin, vout;
		build_view(c.in, store + abase, vin);
		if(!inplace) { build_view(c.out, store + bbase, vout); }
		std::visit([&](auto& a) {
			using A = std::decay_t<decltype(a)>;
			if constexpr(std::is_same_v<A, std::monostate>) { throw unsupported{"no input view"}; }
			else if constexpr(A::rank_v > MAXT) { throw unsupported{"dimensionality"}; }
			else {
				constexpr int D = A::rank_v;
				if(D != c.D) { throw unsupported{"input view has another dimensionality"}; }
				view_t<D>* po = nullptr;
				if(inplace) { po = std::addressof(a); }
				else if(auto* q = std::get_if<view_t<D>>(&vout)) { po = q; }
				else { throw unsupported{"output view has another dimensionality"}; }
				view_t<D>& b = *po;
				std::vector<long> ic, oc;
				cells_of(a, store, ic); cells_of(b, store, oc);
				os << ",\"icells\":"; jlist(os, ic); os << ",\"ocells\":"; jlist(os, oc);
				std::vector<long> is, ost;  // the library's own stride numbers (used only to classify cases in reports)
				tupv(a.strides(), is, std::make_index_sequence<D>{}); tupv(b.strides(), ost, std::make_index_sequence<D>{});
				os << ",\"istr\":"; jlist(os, is); os << ",\"ostr\":"; jlist(os, ost);
				dump(os, "pre", store, total);
#ifdef VERIF_FFTW_INTERPOSE
				fftwx_reset();
#endif
				bool fin = guard::run([&] { call_adaptor<D>(c, a, b, [&] { dump(os, "mid", store, total); }); });
				if(!fin) { st = "abort"; }
				dump(os, "post", store, total);
#ifdef VERIF_FFTW_INTERPOSE
				dump_events(os, store);
#endif
			}
		}, vin);
	} catch(unsupported const& u) { st = "unsupported"; why = u.why; }
	catch(std::exception const& e) { st = "exception"; why = e.what(); }
	os << ",\"st\":\"" << st << "\"";
	if(st == "abort") { os << ",\"abort\":" << guard::last_json(); }
	if(!why.empty()) { os << ",\"why\":\"" << guard::jesc(why) << "\""; }
	long wild = 0;
	for(long i = 0; i != SLACK; ++i) { wild += (block[i] != slack_value) + (block[SLACK + total + i] != slack_value); }
	os << ",\"wild\":" << wild;
	alloc.deallocate(block, static_cast<std::size_t>(total + 2 * SLACK)); ++g_deallocs;
#ifdef VERIF_FFTW_INTERPOSE
	// multi::fftw::allocator: elements requested, calls of fftw_malloc, bytes of the request, calls of fftw_free, frees of pointers not live
	os << ",\"mem\":[" << (total + 2 * SLACK) << ',' << fftwx_mallocs() << ',' << fftwx_bytes() << ',' << fftwx_frees() << ',' << fftwx_badfrees() << ']';
#endif
	os << ",\"allocs\":" << g_allocs << ",\"deallocs\":" << g_deallocs << "}\n";
}

// with the argument "isolate" every case runs in a forked child, so that a case that corrupts the heap cannot
// influence the observations of the following ones (used for the mode that is a known finding)
int main(int argc, char** argv) {
	bool const isolate = argc > 1 && std::string(argv[1]) == "isolate";
	guard::install();
	std::ios::sync_with_stdio(false);
	std::string line;
	while(std::getline(std::cin, line)) {
		if(line.empty()) { continue; }
		std::istringstream is(line);
		std::string tag; is >> tag;
		if(tag != "C") { continue; }
		case_t c;
		is >> c.id >> c.seed >> c.mode >> c.sign >> c.D;
		c.sh.resize(static_cast<std::size_t>(c.D)); c.which.resize(static_cast<std::size_t>(c.D));
		for(auto& x : c.sh) { is >> x; }
		for(auto& x : c.which) { is >> x; }
		std::string t; is >> t; c.in = parse_layout(is);
		is >> t; c.out = parse_layout(is);
		guard::context() = c.id;
		if(isolate) {
			std::cout << std::flush;
			pid_t const child = fork();
			if(child == 0) {
				std::ostringstream os;
				run_case(c, os);
				std::cout << os.str() << std::flush;
				_exit(0);
			}
			int status = 0;
			waitpid(child, &status, 0);
			if(!(WIFEXITED(status) && WEXITSTATUS(status) == 0)) {
				std::cout << "{\"id\":" << c.id << ",\"st\":\"died\",\"mode\":\"" << c.mode << "\",\"status\":" << status << "}\n" << std::flush;
			}
			continue;
		}
		std::ostringstream os;
		run_case(c, os);
		std::cout << os.str() << std::flush;
	}
	return 0;
}
