/* Interposer for property C15: records the calls the adaptor makes to FFTW's guru interface and
 * forwards them to the real library (dlsym(RTLD_NEXT)).  Separate C translation unit: it must not
 * see <fftw3.h> (the symbols are re-declared here with layout-compatible types).
 * Link with  -Wl,--no-as-needed -lfftw3 -ldl.  The replayer reads the log through fftwx_*.       */
#define _GNU_SOURCE
#include <dlfcn.h>
#include <stddef.h>
#include <stdio.h>
#include <stdlib.h>

typedef struct { ptrdiff_t n, is, os; } fx_dim;
typedef struct {
	int kind; /* 0 plan, 1 execute, 2 destroy */
	void* plan;
	int rank, hrank;
	fx_dim dims[8], hdims[8];
	void *in, *out;
	int sign;
	unsigned flags;
} fx_event;

#define FX_MAX 64
static fx_event g_ev[FX_MAX];
static int g_n = 0, g_lost = 0;

int fftwx_count(void) { return g_n; }
int fftwx_lost(void) { return g_lost; }
fx_event const* fftwx_event(int i) { return &g_ev[i]; }
void fftwx_reset(void) { g_n = 0; g_lost = 0; }

static fx_event* next_event(void) {
	if(g_n == FX_MAX) { ++g_lost; return NULL; }
	fx_event* e = &g_ev[g_n++];
	e->rank = e->hrank = 0; e->in = e->out = NULL; e->sign = 0; e->flags = 0; e->plan = NULL;
	return e;
}

static void* real(char const* name) {
	void* p = dlsym(RTLD_NEXT, name);
	if(p == NULL) { fprintf(stderr, "replay_fftw_interpose: cannot resolve %s\n", name); abort(); }
	return p;
}

void* fftw_plan_guru64_dft(int rank, fx_dim const* dims, int howmany_rank, fx_dim const* howmany_dims, void* in, void* out, int sign, unsigned flags) {
	static void* (*fn)(int, fx_dim const*, int, fx_dim const*, void*, void*, int, unsigned) = NULL;
	if(fn == NULL) { fn = (void* (*)(int, fx_dim const*, int, fx_dim const*, void*, void*, int, unsigned))real("fftw_plan_guru64_dft"); }
	void* p = fn(rank, dims, howmany_rank, howmany_dims, in, out, sign, flags);
	fx_event* e = next_event();
	if(e != NULL) {
		e->kind = 0; e->plan = p; e->rank = rank; e->hrank = howmany_rank; e->in = in; e->out = out; e->sign = sign; e->flags = flags;
		for(int k = 0; k < rank && k < 8; ++k) { e->dims[k] = dims[k]; }
		for(int k = 0; k < howmany_rank && k < 8; ++k) { e->hdims[k] = howmany_dims[k]; }
	}
	return p;
}

void fftw_execute_dft(void* plan, void* in, void* out) {
	static void (*fn)(void*, void*, void*) = NULL;
	if(fn == NULL) { fn = (void (*)(void*, void*, void*))real("fftw_execute_dft"); }
	fx_event* e = next_event();
	if(e != NULL) { e->kind = 1; e->plan = plan; e->in = in; e->out = out; }
	fn(plan, in, out);
}

void fftw_destroy_plan(void* plan) {
	static void (*fn)(void*) = NULL;
	if(fn == NULL) { fn = (void (*)(void*))real("fftw_destroy_plan"); }
	fx_event* e = next_event();
	if(e != NULL) { e->kind = 2; e->plan = plan; }
	fn(plan);
}

/* fftw_malloc / fftw_free as used by multi::fftw::allocator (FFTW's own internal allocations do not go through
 * these exported entry points): number of calls, bytes of the last request, frees of pointers that are not live */
#define FX_LIVE 64
static void* g_live[FX_LIVE];
static int g_mallocs = 0, g_frees = 0, g_badfrees = 0;
static long g_bytes = 0;

void fftwx_mem_reset(void) { g_mallocs = g_frees = g_badfrees = 0; g_bytes = 0; }
int fftwx_mallocs(void) { return g_mallocs; }
int fftwx_frees(void) { return g_frees; }
int fftwx_badfrees(void) { return g_badfrees; }
long fftwx_bytes(void) { return g_bytes; }

void* fftw_malloc(size_t n) {
	static void* (*fn)(size_t) = NULL;
	if(fn == NULL) { fn = (void* (*)(size_t))real("fftw_malloc"); }
	void* p = fn(n);
	++g_mallocs; g_bytes = (long)n;
	for(int k = 0; k < FX_LIVE; ++k) { if(g_live[k] == NULL) { g_live[k] = p; break; } }
	return p;
}

void fftw_free(void* p) {
	static void (*fn)(void*) = NULL;
	if(fn == NULL) { fn = (void (*)(void*))real("fftw_free"); }
	++g_frees;
	int found = 0;
	for(int k = 0; k < FX_LIVE; ++k) { if(p != NULL && g_live[k] == p) { g_live[k] = NULL; found = 1; break; } }
	if(!found) { ++g_badfrees; return; }  /* not forwarded: freeing a foreign or already freed pointer would end the process */
	fn(p);
}
