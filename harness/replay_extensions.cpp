// Replayer for specs/Extensions.tla: evaluates the real index-extension algebra (range / extension_t / extensions_t<D>)
// on the operands TLC enumerates and prints what it observes.  No expected values in here.
//
// input:  X <id> <D> { <first> <size> }xD  { <first> <size> }xD   then <nprobes> { <t1..tD> }
// output: one JSON object per line with the fields of Extensions!XExpect
#include <boost/multi/array.hpp>

#include "guard.hpp"

#include <iostream>
#include <sstream>
#include <string>
#include <vector>

namespace multi = boost::multi;

static void jl(std::ostream& os, std::vector<long> const& v) { os << '['; for(std::size_t i = 0; i != v.size(); ++i) { if(i) { os << ','; } os << v[i]; } os << ']'; }

template<int D, std::size_t... K> auto mkx(std::vector<long> const& f, std::vector<long> const& n, std::index_sequence<K...> /*u*/) {
	return multi::extensions_t<D>{multi::iextension(f[K], f[K] + n[K])...};
}
template<int D> auto mkx(std::vector<long> const& f, std::vector<long> const& n) { return mkx<D>(f, n, std::make_index_sequence<D>{}); }

template<class Tup, std::size_t... K> std::vector<long> tupv(Tup const& t, std::index_sequence<K...> /*u*/) {
	using boost::multi::detail::get;
	return {static_cast<long>(get<K>(t))...};
}
template<int D, class X, std::size_t... K> long to_lin(X const& x, std::vector<long> const& p, std::index_sequence<K...> /*u*/) { return static_cast<long>(x.to_linear(p[K]...)); }
template<int D, class X, std::size_t... K> bool nextc(X const& x, std::vector<multi::index>& t, std::index_sequence<K...> /*u*/) { return x.next_canonical(t[K]...); }
template<int D, class X, std::size_t... K> bool prevc(X const& x, std::vector<multi::index>& t, std::index_sequence<K...> /*u*/) { return x.prev_canonical(t[K]...); }
template<int D, class X, std::size_t... K> bool containsx(X const& x, std::vector<long> const& t, std::index_sequence<K...> /*u*/) {
	using boost::multi::detail::get;
	return (get<K>(x.base()).contains(t[K]) && ...);
}
template<int D, class X, std::size_t... K> void ranges_of(X const& x, std::vector<long>& f, std::vector<long>& n, std::index_sequence<K...> /*u*/) {
	using boost::multi::detail::get;
	(f.push_back(static_cast<long>(get<K>(x.base()).first())), ...);
	(n.push_back(static_cast<long>(get<K>(x.base()).size())), ...);
}

template<int D> void run_case(long id, std::vector<long> const& xf, std::vector<long> const& xn, std::vector<long> const& yf, std::vector<long> const& yn, std::vector<std::vector<long>> const& probes) {
	constexpr auto IS = std::make_index_sequence<D>{};
	std::ostringstream os;
	os << "{\"id\":" << id;
	bool fin = guard::run([&] {
		auto const x = mkx<D>(xf, xn);
		auto const y = mkx<D>(yf, yn);
		long const ne = static_cast<long>(x.num_elements());
		os << ",\"ne\":" << ne;
		{ std::vector<long> f, n; ranges_of<D>(x, f, n, IS); os << ",\"sizes\":"; jl(os, n); os << ",\"firsts\":"; jl(os, f); }
		os << ",\"from_linear\":[";
		std::vector<std::vector<long>> pos;
		for(long k = 0; k < ne; ++k) { auto p = tupv(x.from_linear(k), IS); pos.push_back(p); if(k) { os << ','; } jl(os, p); }
		os << "],\"to_linear\":[";
		for(long k = 0; k < ne; ++k) { if(k) { os << ','; } os << to_lin<D>(x, pos[static_cast<std::size_t>(k)], IS); }
		os << "],\"next\":[";
		for(long k = 0; k < ne; ++k) {
			std::vector<multi::index> t(D); for(int d = 0; d != D; ++d) { t[static_cast<std::size_t>(d)] = xf[static_cast<std::size_t>(d)] + pos[static_cast<std::size_t>(k)][static_cast<std::size_t>(d)]; }
			bool carry = nextc<D>(x, t, IS);
			if(k) { os << ','; } os << "{\"to\":"; jl(os, std::vector<long>(t.begin(), t.end())); os << ",\"carry\":" << (carry ? 1 : 0) << '}';
		}
		os << "],\"prev\":[";
		for(long k = 0; k < ne; ++k) {
			std::vector<multi::index> t(D); for(int d = 0; d != D; ++d) { t[static_cast<std::size_t>(d)] = xf[static_cast<std::size_t>(d)] + pos[static_cast<std::size_t>(k)][static_cast<std::size_t>(d)]; }
			bool carry = prevc<D>(x, t, IS);
			if(k) { os << ','; } os << "{\"to\":"; jl(os, std::vector<long>(t.begin(), t.end())); os << ",\"carry\":" << (carry ? 1 : 0) << '}';
		}
		os << "]";
		{ auto const z = intersection(x, y); std::vector<long> f, n; ranges_of<D>(z, f, n, IS); os << ",\"inter_sizes\":"; jl(os, n); os << ",\"inter_firsts\":"; jl(os, f);
		  auto const z2 = intersection(y, x); std::vector<long> f2, n2; ranges_of<D>(z2, f2, n2, IS); os << ",\"inter_sizes_rev\":"; jl(os, n2); }
		os << ",\"eq\":" << ((x == y) ? 1 : 0) << ",\"ne_op\":" << ((x != y) ? 1 : 0);
		os << ",\"contains\":[";
		for(std::size_t i = 0; i != probes.size(); ++i) { if(i) { os << ','; } os << (containsx<D>(x, probes[i], IS) ? 1 : 0); }
		os << "]";
		// the leading range by itself
		using boost::multi::detail::get;
		auto const r = get<0>(x.base());
		os << ",\"r_size\":" << static_cast<long>(r.size()) << ",\"r_empty\":" << (r.is_empty() ? 1 : 0);
		{ std::vector<long> seq, idx, rseq; for(auto v : r) { seq.push_back(static_cast<long>(v)); } for(long k = 0; k < static_cast<long>(r.size()); ++k) { idx.push_back(static_cast<long>(r[k])); }
		  for(auto it = r.rbegin(); it != r.rend(); ++it) { rseq.push_back(static_cast<long>(*it)); }
		  os << ",\"r_seq\":"; jl(os, seq); os << ",\"r_index\":"; jl(os, idx); os << ",\"r_rseq\":"; jl(os, rseq);
		  if(r.size() > 0) { os << ",\"r_front\":" << static_cast<long>(r.front()) << ",\"r_back\":" << static_cast<long>(r.back()); } }
		{ std::vector<long> fnd; for(long v = xf[0] - 1; v <= xf[0] + xn[0]; ++v) { fnd.push_back(static_cast<long>(r.find(v) - r.begin())); } os << ",\"r_find\":"; jl(os, fnd); }
	});
	if(!fin) { os << ",\"abort\":" << guard::last_json(); }
	os << "}\n";
	std::cout << os.str() << std::flush;
}

int main() {
	guard::install();
	std::ios::sync_with_stdio(false);
	std::string line;
	while(std::getline(std::cin, line)) {
		if(line.empty() || line[0] != 'X') { continue; }
		std::istringstream is(line);
		std::string tag; long id = 0; int D = 0;
		is >> tag >> id >> D;
		std::vector<long> xf(static_cast<std::size_t>(D)), xn(xf), yf(xf), yn(xf);
		for(int d = 0; d != D; ++d) { is >> xf[static_cast<std::size_t>(d)] >> xn[static_cast<std::size_t>(d)]; }
		for(int d = 0; d != D; ++d) { is >> yf[static_cast<std::size_t>(d)] >> yn[static_cast<std::size_t>(d)]; }
		std::size_t np = 0; is >> np;
		std::vector<std::vector<long>> probes(np, std::vector<long>(static_cast<std::size_t>(D)));
		for(auto& p : probes) { for(auto& v : p) { is >> v; } }
		guard::context() = id;
		switch(D) {
			case 1: run_case<1>(id, xf, xn, yf, yn, probes); break;
			case 2: run_case<2>(id, xf, xn, yf, yn, probes); break;
			case 3: run_case<3>(id, xf, xn, yf, yn, probes); break;
			default: std::cout << "{\"id\":" << id << ",\"unsupported\":true}\n";
		}
	}
	return 0;
}
