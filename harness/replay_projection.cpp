// Replayer for property C12: root array of records S{short a; short b;}, a view program, one projection
// cast, a few view operations on the projected view; prints shape, designated storage units (in shorts,
// relative to the root's first byte) and values read.  No expected values in here.
//
// input: J <id> <view program> <cast> <npost> { <op> <nargs> <args..> }
#ifdef VERIF_REC3
struct S { short a; short b; short c; };   // 6 bytes: reinterpreted as pairs of shorts (4 bytes), sizes that are not multiples of each other
inline bool operator==(S const& x, S const& y) { return x.a == y.a && x.b == y.b && x.c == y.c; }
#else
struct S { short a; short b; };
inline bool operator==(S const& x, S const& y) { return x.a == y.a && x.b == y.b; }
#endif
struct P2 { short x; short y; };
inline bool operator==(P2 const& p, P2 const& q) { return p.x == q.x && p.y == q.y; }
#define VERIF_ELEM S
#include "viewprog.hpp"

#include <cstdint>
#include <functional>

static char const* g_bytes = nullptr;
template<class E> long unit_of(E const& e) { return static_cast<long>((reinterpret_cast<char const*>(&e) - g_bytes) / 2); }
template<class E> long value_of(E const& e) {
	if constexpr(std::is_same_v<std::decay_t<E>, S>) { return e.a; }
	else if constexpr(std::is_same_v<std::decay_t<E>, P2>) { return static_cast<long>(e.x) + 65536L * static_cast<long>(e.y); }
	else { return static_cast<long>(e); }
}

// a few view operations written generically (the projected view has another element type than viewprog's T)
template<class V, class F> void post_ops(V&& v, std::vector<op_t> const& ops, std::size_t k, F&& f) {
	using VV = std::decay_t<V>;
	constexpr int D = VV::rank_v;
	if(k == ops.size()) { f(std::forward<V>(v)); return; }
	auto const& o = ops[k];
	if(o.name == "rotated") { post_ops(v.rotated(), ops, k + 1, f); }
	else if(o.name == "unrotated") { post_ops(v.unrotated(), ops, k + 1, f); }
	else if(o.name == "reversed") { post_ops(v.reversed(), ops, k + 1, f); }
	else if(o.name == "strided") { post_ops(v.strided(o.a[0]), ops, k + 1, f); }
	else if(o.name == "dropped") { post_ops(v.dropped(o.a[0]), ops, k + 1, f); }
	else if(o.name == "sliced") { post_ops(v.sliced(o.a[0], o.a[1]), ops, k + 1, f); }
	else if(o.name == "transposed") { if constexpr(D >= 2) { post_ops(v.transposed(), ops, k + 1, f); } else { throw unsupported{"transposed D<2"}; } }
	else if(o.name == "index") { if constexpr(D >= 2) { post_ops(v[o.a[0]], ops, k + 1, f); } else { throw unsupported{"index on 1-D projected view"}; } }
	else { throw unsupported{"post op " + o.name}; }
}

template<class V> void dump(V const& v, std::ostream& os) {
	constexpr int D = std::decay_t<V>::rank_v;
	std::vector<long> sh, units, vals;
	{
		using boost::multi::detail::get;
		auto sz = v.sizes();
		std::apply([&](auto... e) { (sh.push_back(static_cast<long>(e)), ...); }, [&]<std::size_t... K>(std::index_sequence<K...>) { return std::make_tuple(get<K>(sz)...); }(std::make_index_sequence<D>{}));
	}
	for(auto const& e : v.elements()) { units.push_back(unit_of(e)); vals.push_back(value_of(e)); }
	os << ",\"shape\":"; jlist(os, sh); os << ",\"units\":"; jlist(os, units); os << ",\"vals\":"; jlist(os, vals);
	// the same elements through indexing
	std::vector<long> byidx;
	auto rec = [&](auto&& self, auto const& w) -> void {
		constexpr int DD = std::decay_t<decltype(w)>::rank_v;
		for(auto i : w.extension()) { if constexpr(DD == 1) { byidx.push_back(unit_of(w[i])); } else { self(self, w[i]); } }
	};
	rec(rec, v);
	if(byidx != units) { os << ",\"units_by_index\":"; jlist(os, byidx); }
	// an array constructed from the projected view: same extents, element by element
	{
		using E = std::decay_t<typename std::decay_t<V>::element_type>;
		multi::array<E, D> cp(v);
		std::vector<long> csh, cvals;
		{ using boost::multi::detail::get; auto sz = cp.sizes(); [&]<std::size_t... K>(std::index_sequence<K...>) { (csh.push_back(static_cast<long>(get<K>(sz))), ...); }(std::make_index_sequence<D>{}); }
		for(auto const& e : cp.elements()) { cvals.push_back(value_of(e)); }
		os << ",\"copy_shape\":"; jlist(os, csh); os << ",\"copy_vals\":"; jlist(os, cvals);
	}
}
// lazily transformed views yield values, not references: no units
template<class V> void dump_values(V const& v, std::ostream& os, bool has_units) {
	constexpr int D = std::decay_t<V>::rank_v;
	std::vector<long> sh, vals, units;
	{
		using boost::multi::detail::get;
		auto sz = v.sizes();
		[&]<std::size_t... K>(std::index_sequence<K...>) { (sh.push_back(static_cast<long>(get<K>(sz))), ...); }(std::make_index_sequence<D>{});
	}
	for(auto&& e : v.elements()) { vals.push_back(static_cast<long>(e)); if(has_units) { units.push_back(unit_of(e)); } }
	os << ",\"shape\":"; jlist(os, sh); os << ",\"vals\":"; jlist(os, vals);
	if(has_units) { os << ",\"units\":"; jlist(os, units); }
}

template<int RD, int D> void do_cast(multi::array<S, RD>& root, view_t<D>& v, std::string const& cast, std::vector<op_t> const& post, std::ostream& os) {
	if(cast == "member_a") { post_ops(v.template member_cast<short>(&S::a), post, 0, [&](auto&& w) { dump(w, os); }); }
	else if(cast == "member_b") { post_ops(v.template member_cast<short>(&S::b), post, 0, [&](auto&& w) { dump(w, os); }); }
#ifndef VERIF_REC3
	else if(cast == "reint_int") { post_ops(v.template reinterpret_array_cast<std::int32_t>(), post, 0, [&](auto&& w) { dump(w, os); }); }
#endif
#ifndef VERIF_REC3
	else if(cast == "reint_short2") { post_ops(v.template reinterpret_array_cast<short>(2), post, 0, [&](auto&& w) { dump(w, os); }); }
#endif
	// the same casts reached through a const view (the read-only overloads)
	else if(cast == "member_a_const") { auto const& cv = v; post_ops(cv.template member_cast<short>(&S::a), post, 0, [&](auto&& w) { dump(w, os); }); }
#ifndef VERIF_REC3
	else if(cast == "reint_int_const") { auto const& cv = v; post_ops(cv.template reinterpret_array_cast<std::int32_t>(), post, 0, [&](auto&& w) { dump(w, os); }); }
#endif
#ifndef VERIF_REC3
	else if(cast == "reint_short2_const") { auto const& cv = v; post_ops(cv.template reinterpret_array_cast<short>(2), post, 0, [&](auto&& w) { dump(w, os); }); }
#endif
	else if(cast == "member_b_const") { auto const& cv = v; post_ops(cv.template member_cast<short>(&S::b), post, 0, [&](auto&& w) { dump(w, os); }); }
	// ... and through a temporary view (the && overloads)
	else if(cast == "member_a_rv") { post_ops(std::move(v).template member_cast<short>(&S::a), post, 0, [&](auto&& w) { dump(w, os); }); }
	else if(cast == "member_b_rv") { post_ops(v().template member_cast<short>(&S::b), post, 0, [&](auto&& w) { dump(w, os); }); }
#ifndef VERIF_REC3
	else if(cast == "reint_int_rv") { post_ops(std::move(v).template reinterpret_array_cast<std::int32_t>(), post, 0, [&](auto&& w) { dump(w, os); }); }
#endif
#ifndef VERIF_REC3
	else if(cast == "reint_short2_rv") { post_ops(std::move(v).template reinterpret_array_cast<short>(2), post, 0, [&](auto&& w) { dump(w, os); }); }
#endif
#ifdef VERIF_REC3
	else if(cast == "reint_pair") { post_ops(v.template reinterpret_array_cast<P2>(), post, 0, [&](auto&& w) { dump(w, os); }); }
	else if(cast == "reint_pair_const") { auto const& cv = v; post_ops(cv.template reinterpret_array_cast<P2>(), post, 0, [&](auto&& w) { dump(w, os); }); }
	else if(cast == "reint_pair_rv") { post_ops(std::move(v).template reinterpret_array_cast<P2>(), post, 0, [&](auto&& w) { dump(w, os); }); }
#endif
	else if(cast == "static_const") { post_ops(v.template static_array_cast<S const>(), post, 0, [&](auto&& w) { dump(w, os); }); }
	else if(cast == "const_cast") {
		if constexpr(D >= 2) { auto const& cv = v; post_ops(cv.template const_array_cast<S>(), post, 0, [&](auto&& w) { dump(w, os); }); }
		else { throw unsupported{"const_array_cast is not provided for 1-D views"}; }
	}
	else if(cast == "as_const") {
		if constexpr(D >= 2) { post_ops(v.as_const(), post, 0, [&](auto&& w) { dump(w, os); }); }
		else { throw unsupported{"as_const is not provided for 1-D views"}; }
	}
	else if(cast == "transformed_a1") {
		auto&& lazy = v.element_transformed([](S const& s) { return static_cast<long>(s.a) + 1; });
		for(auto& e : root.elements()) { e.a = static_cast<short>(e.a + 1000); }   // mutate AFTER the view was formed: the view must be lazy
		post_ops(lazy, post, 0, [&](auto&& w) { dump_values(w, os, false); });
	}
	else if(cast == "transformed_refb") {
		auto&& refs = v.element_transformed([](S& s) -> short& { return s.b; });
		post_ops(refs, post, 0, [&](auto&& w) {
			dump_values(w, os, true);
			// write-through: assign through the view, then report the root
			long k = 0;
			for(auto&& e : w.elements()) { e = static_cast<short>(7000 + (k++)); }
		});
		std::vector<long> bs; for(auto const& e : root.elements()) { bs.push_back(e.b); }
		os << ",\"root_b_after\":"; jlist(os, bs);
	}
	else if(cast == "convert_array") {   // an array of another element type built from the view: extents preserved, element-wise conversion
		auto&& ma = v.template member_cast<short>(&S::a);
		post_ops(ma, post, 0, [&](auto&& w) {
			constexpr int DD = std::decay_t<decltype(w)>::rank_v;
			multi::array<long, DD> conv(w);
			std::vector<long> sh, vals, units;
			{ using boost::multi::detail::get; auto sz = conv.sizes(); [&]<std::size_t... K>(std::index_sequence<K...>) { (sh.push_back(static_cast<long>(get<K>(sz))), ...); }(std::make_index_sequence<DD>{}); }
			for(auto const& e : conv.elements()) { vals.push_back(e); }
			for(auto const& e : w.elements()) { units.push_back(unit_of(e)); }
			os << ",\"shape\":"; jlist(os, sh); os << ",\"units\":"; jlist(os, units); os << ",\"vals\":"; jlist(os, vals);
			bool outside = !(reinterpret_cast<char const*>(conv.data_elements() + conv.num_elements()) <= g_bytes || reinterpret_cast<char const*>(conv.data_elements()) >= g_bytes + root.num_elements() * sizeof(S));
			os << ",\"shares_storage\":" << ((conv.num_elements() > 0 && outside) ? "true" : "false");
		});
	}
	else { throw unsupported{"cast " + cast}; }
}

template<int D> void run_case(long id, view_program const& p, std::string const& cast, std::vector<op_t> const& post) {
	multi::array<S, D> root(make_ext<D>(p.sizes, p.firsts, std::make_index_sequence<D>{}));
	{ short c = 0; for(auto& e : root.elements()) { e.a = static_cast<short>(100 + c); e.b = static_cast<short>(200 + c);
#ifdef VERIF_REC3
		e.c = static_cast<short>(300 + c);
#endif
		++c; } }
	g_root = root.data_elements();
	g_bytes = reinterpret_cast<char const*>(root.data_elements());
	any_view cur;
	put<D>(cur, norm(root()));
	std::ostringstream os;
	os << "{\"id\":" << id;
	std::string status;
	run_ops(cur, p.ops, status);
	if(status != "ok") { os << ",\"st\":\"" << (status == "abort" ? "abort" : "unsupported") << "\",\"why\":\"view\""; if(status == "abort") { os << ",\"abort\":" << guard::last_json(); } }
	else {
		std::ostringstream body;
		std::string why;
		bool fin = true;
		try {
			fin = guard::run([&] {
				std::visit([&](auto& v) {
					using V = std::decay_t<decltype(v)>;
					if constexpr(std::is_same_v<V, std::monostate> || std::is_same_v<V, elem0>) { throw unsupported{"element"}; }
					else if constexpr(V::rank_v > 3) { throw unsupported{"D>3"}; }
					else { do_cast<D, V::rank_v>(root, v, cast, post, body); }
				}, cur);
			});
		} catch(unsupported const& u) { why = u.why; }
		if(!why.empty()) { os << ",\"st\":\"unsupported\",\"why\":\"" << why << "\""; }
		else if(!fin) { os << ",\"st\":\"abort\",\"abort\":" << guard::last_json(); }
		else { os << ",\"st\":\"ok\"" << body.str(); }
	}
	os << "}\n";
	std::cout << os.str() << std::flush;
}

int main() {
	guard::install();
	std::ios::sync_with_stdio(false);
	std::string line;
	while(std::getline(std::cin, line)) {
		if(line.empty() || line[0] != 'J') { continue; }
		std::istringstream is(line);
		std::string tag, cast; long id = 0; std::size_t npost = 0;
		is >> tag >> id;
		view_program p = parse_view_program(is);
		is >> cast >> npost;
		std::vector<op_t> post(npost);
		for(auto& o : post) { std::size_t na = 0; is >> o.name >> na; o.a.resize(na); for(auto& x : o.a) { is >> x; } }
		guard::context() = id;
		switch(p.D) {
			case 1: run_case<1>(id, p, cast, post); break;
			case 2: run_case<2>(id, p, cast, post); break;
			case 3: run_case<3>(id, p, cast, post); break;
			default: std::cout << "{\"id\":" << id << ",\"st\":\"unsupported\",\"why\":\"root D\"}\n";
		}
	}
	return 0;
}
