// viewprog.hpp -- executing view programs (sequences of view-forming operations) on the real
// library; shared by the replayers of C01/C19 (views), C02 (iterators), C03, C05, ...
#ifndef VERIF_VIEWPROG_HPP
#define VERIF_VIEWPROG_HPP
#include "guard.hpp"

#include <boost/multi/array.hpp>

#include <cstdio>
#include <cstdlib>
#include <iostream>
#include <sstream>
#include <string>
#include <tuple>
#include <variant>
#include <vector>

#ifndef VERIF_ELEM
#define VERIF_ELEM long
#endif

#ifndef VERIF_PTR_KIND
#define VERIF_PTR_KIND 0   // 0 raw pointers, 1 minimal fancy pointer, 2 bounds-checking fancy pointer (property C11)
#endif
#include "ptrs.hpp"

namespace multi = boost::multi;
using T = VERIF_ELEM;
constexpr int MAXD = 5;

#if VERIF_PTR_KIND == 0
using ptr_t = T*;
using cptr_t = T const*;
inline ptr_t unconst(cptr_t p) { return const_cast<T*>(p); }
inline ptr_t unconst(ptr_t p) { return p; }
template<class U> using verif_alloc = std::allocator<U>;
#else
using ptr_t = vptr::fancy<T, VERIF_PTR_KIND == 2>;
using cptr_t = vptr::fancy<T const, VERIF_PTR_KIND == 2>;
inline ptr_t unconst(cptr_t const& p) { return ptr_t(vptr::unconst_t{}, p); }
inline ptr_t unconst(ptr_t const& p) { return p; }
template<class U> using verif_alloc = vptr::alloc<U, VERIF_PTR_KIND == 2>;
#endif

template<int D> using view_t = multi::subarray<T, D, ptr_t>;
struct elem0 { T* p; };  // zero-dimensional result: one element
using any_view = std::variant<std::monostate, elem0, view_t<1>, view_t<2>, view_t<3>, view_t<4>, view_t<5>>;

struct op_t { std::string name; std::vector<long> a; int recv = 0; bool on_array = false; };  // recv: 0 lvalue, 1 const lvalue, 2 temporary (the value category of the receiver)

static T* g_root = nullptr;  // data_elements() of the root
static long g_root_n = 0;

template<class R> auto norm(R&& r) {
	using RR = std::decay_t<R>;
	constexpr int DD = RR::rank_v;
	return view_t<DD>(r.layout(), unconst(r.base()));
}

struct unsupported { std::string why; };

template<int D> void put(any_view& v, view_t<D>&& nv) { v.template emplace<view_t<D>>(std::move(nv)); }

// the address of an element however it is handed out (T&, T const&, or T&& from a temporary owning array)
inline T* addr_of(T const& e) { return const_cast<T*>(std::addressof(e)); }

template<int M, class V> constexpr decltype(auto) rcv(V& v) {
	if constexpr(M == 1) { return std::as_const(v); } else if constexpr(M == 2) { return std::move(v); } else { return (v); }
}

// call syntax with a mix of index / range / all arguments
template<int D, int M, class V, class... As>
void paren_rec(V& cur, std::vector<long> const& a, std::size_t pos, any_view& out, As... as) {
	if(pos * 3 == a.size()) {
		if constexpr(sizeof...(As) == 0) {
			put<D>(out, norm(rcv<M>(cur)()));
		} else {
			using R = decltype(rcv<M>(cur)(as...));
			if constexpr(std::is_reference_v<R> || std::is_arithmetic_v<std::decay_t<R>>) {
				T const& r = rcv<M>(cur)(as...);
				out.template emplace<elem0>(elem0{const_cast<T*>(&r)});
			} else {
				auto&& r = rcv<M>(cur)(as...);
				constexpr int DD = std::decay_t<decltype(r)>::rank_v;
				put<DD>(out, norm(r));
			}
		}
		return;
	}
	if constexpr(sizeof...(As) < static_cast<std::size_t>(D) && sizeof...(As) < 5) {
		long k = a[pos * 3], x = a[pos * 3 + 1], y = a[pos * 3 + 2];
		if(k == 0) { paren_rec<D, M, V>(cur, a, pos + 1, out, as..., static_cast<multi::index>(x)); }
		else if(k == 1) { paren_rec<D, M, V>(cur, a, pos + 1, out, as..., multi::irange(x, y)); }
		else { paren_rec<D, M, V>(cur, a, pos + 1, out, as..., multi::_); }
	} else {
		throw unsupported{"paren arity"};
	}
}

// V: the receiver's type -- a view (view_t<D>) or the owning array itself (the first operation of a program marked '^')
template<int D, int M, class V>
void apply_op_m(V& cur, op_t const& o, any_view& out) {
	auto const& n = o.name;
	auto const& a = o.a;
	if(n == "index") {
		if constexpr(D == 1) { out.template emplace<elem0>(elem0{addr_of(rcv<M>(cur)[a[0]])}); }
		else { put<D - 1>(out, norm(rcv<M>(cur)[a[0]])); }
	} else if(n == "sliced")     { put<D>(out, norm(rcv<M>(cur).sliced(a[0], a[1])));
	} else if(n == "blocked")    { put<D>(out, norm(rcv<M>(cur).blocked(a[0], a[1])));
	} else if(n == "stenciled")  {
		if(a.size() == 2) { put<D>(out, norm(rcv<M>(cur).stenciled({a[0], a[1]}))); }
		else if constexpr(D >= 2) { if(a.size() == 4) { put<D>(out, norm(rcv<M>(cur).stenciled({a[0], a[1]}, {a[2], a[3]}))); } else { throw unsupported{"stenciled arity"}; } }
		else { throw unsupported{"stenciled arity"}; }
	} else if(n == "range")      { put<D>(out, norm(rcv<M>(cur).range({a[0], a[1]})));
	} else if(n == "front" || n == "back") {
		if constexpr(D == 1) { out.template emplace<elem0>(elem0{n == "front" ? addr_of(rcv<M>(cur).front()) : addr_of(rcv<M>(cur).back())}); }
		else { if(n == "front") { put<D - 1>(out, norm(rcv<M>(cur).front())); } else { put<D - 1>(out, norm(rcv<M>(cur).back())); } }
	} else if(n == "addr")       {
		if constexpr(M == 2 && !std::is_same_v<V, view_t<D>>) { throw unsupported{"the address of a temporary owning array is deleted on purpose"}; }
		else { auto p = &rcv<M>(cur); put<D>(out, norm(*p)); }
	} else if(n == "strided")    { put<D>(out, norm(rcv<M>(cur).strided(a[0])));
	} else if(n == "dropped")    { put<D>(out, norm(rcv<M>(cur).dropped(a[0])));
	} else if(n == "taked")      { put<D>(out, norm(rcv<M>(cur).taked(a[0])));
	} else if(n == "rotated")    { put<D>(out, norm(rcv<M>(cur).rotated()));
	} else if(n == "unrotated")  { put<D>(out, norm(rcv<M>(cur).unrotated()));
	} else if(n == "reversed")   { put<D>(out, norm(rcv<M>(cur).reversed()));
	} else if(n == "reindexed")  {
		if(a.size() == 1) { put<D>(out, norm(rcv<M>(cur).reindexed(a[0]))); }
		else if constexpr(D >= 2) { if(a.size() == 2) { put<D>(out, norm(rcv<M>(cur).reindexed(a[0], a[1]))); } else { throw unsupported{"reindexed arity"}; } }
		else { throw unsupported{"reindexed arity"}; }
	} else if(n == "transposed") {
		if constexpr(D >= 2) { put<D>(out, norm(rcv<M>(cur).transposed())); } else { throw unsupported{"transposed D<2"}; }
	} else if(n == "diagonal") {
		if constexpr(D >= 2) { put<D - 1>(out, norm(rcv<M>(cur).diagonal())); } else { throw unsupported{"diagonal D<2"}; }
	} else if(n == "flatted") {
		if constexpr(D >= 2) {
#pragma GCC diagnostic push
#pragma GCC diagnostic ignored "-Wdeprecated-declarations"
			if(!rcv<M>(cur).is_flattable()) { throw unsupported{"not flattable"}; }
#pragma GCC diagnostic pop
			put<D - 1>(out, norm(rcv<M>(cur).flatted()));
		} else { throw unsupported{"flatted D<2"}; }
	} else if(n == "halved") {
		if constexpr(D < MAXD) { put<D + 1>(out, norm(rcv<M>(cur).halved())); } else { throw unsupported{"dim"}; }
	} else if(n == "sliced3") { put<D>(out, norm(rcv<M>(cur).sliced(a[0], a[1], a[2])));
	} else if(n == "tilde") {
		if constexpr(D >= 2) { put<D>(out, norm(~rcv<M>(cur))); } else { throw unsupported{"tilde D<2"}; }
	} else if(n == "partitioned") {
		if constexpr(D < MAXD) { put<D + 1>(out, norm(rcv<M>(cur).partitioned(a[0]))); } else { throw unsupported{"dim"}; }
	} else if(n == "tiled_q") {
		if constexpr(D < MAXD) { put<D + 1>(out, norm(rcv<M>(cur).tiled(a[0]).quotient)); } else { throw unsupported{"dim"}; }
	} else if(n == "tiled_r") { put<D>(out, norm(rcv<M>(cur).tiled(a[0]).remainder));
	} else if(n == "chunked") {
		if constexpr(D < MAXD) { put<D + 1>(out, norm(rcv<M>(cur).chunked(a[0]))); } else { throw unsupported{"dim"}; }
	} else if(n == "broadcast") {
		if constexpr(D < MAXD) { put<D>(out, norm(rcv<M>(cur).broadcasted()[a[0]])); } else { throw unsupported{"dim"}; }
	} else if(n == "paren") {
		paren_rec<D, M, V>(cur, a, 0, out);
	} else {
		throw unsupported{"unknown op " + n};
	}
}

// the receiver's value category selects the overload (&, const&, &&); what is designated must not depend on it
template<int D, class V>
void apply_op_on(V& cur, op_t const& o, any_view& out) {
	if(o.recv == 1) { apply_op_m<D, 1, V>(cur, o, out); }
	else if(o.recv == 2) { apply_op_m<D, 2, V>(cur, o, out); }
	else { apply_op_m<D, 0, V>(cur, o, out); }
}
template<int D>
void apply_op(view_t<D>& cur, op_t const& o, any_view& out) { apply_op_on<D, view_t<D>>(cur, o, out); }

static void jlist(std::ostream& os, std::vector<long> const& v) {
	os << '[';
	for(std::size_t i = 0; i != v.size(); ++i) { if(i) os << ','; os << v[i]; }
	os << ']';
}

static long cellno(T const* p) { return static_cast<long>(p - g_root); }
static long cellno(T const& r) { return cellno(&r); }
#if VERIF_PTR_KIND != 0
static long cellno(ptr_t const& p) { return cellno(raw(p)); }
static long cellno(cptr_t const& p) { return cellno(raw(p)); }
#endif

template<int D, std::size_t... K>
auto make_ext(std::vector<long> const& sizes, std::vector<long> const& firsts, std::index_sequence<K...> /*unused*/) {
	return multi::extensions_t<D>{multi::iextension(firsts[K], firsts[K] + sizes[K])...};
}


inline void split_recv(op_t& o) {  // "sliced@c" -> sliced on a const receiver, "@r" -> on a temporary
	auto at = o.name.find('@');
	if(at == std::string::npos) { return; }
	o.recv = (o.name.substr(at) == "@c") ? 1 : 2;
	o.name.erase(at);
}
inline bool split_on_array(op_t& o) {   // "^sliced": applied to the owning array itself, not to a view of it
	if(o.name.empty() || o.name[0] != '^') { return false; }
	o.name.erase(0, 1);
	return true;
}

// parse "<D> sizes firsts nops {name nargs args}" from a stream
struct view_program { int D = 0; std::vector<long> sizes, firsts; std::vector<op_t> ops; };
inline view_program parse_view_program(std::istream& is) {
	view_program p;
	is >> p.D;
	p.sizes.resize(static_cast<std::size_t>(p.D)); p.firsts.resize(static_cast<std::size_t>(p.D));
	for(auto& s : p.sizes) { is >> s; }
	for(auto& f : p.firsts) { is >> f; }
	std::size_t nops = 0; is >> nops;
	p.ops.resize(nops);
	for(auto& o : p.ops) {
		std::size_t na = 0; is >> o.name >> na;
		o.a.resize(na);
		for(auto& x : o.a) { is >> x; }
		o.on_array = split_on_array(o);
		split_recv(o);
	}
	return p;
}

// applies ops to cur (which must hold a view); returns number of ops done; sets status
// "ok" | "abort" (see guard::last_json()) | "unsupported:<why>"
inline std::size_t run_ops(any_view& cur, std::vector<op_t> const& ops, std::string& status) {
	std::size_t done = 0;
	status = "ok";
	try {
		for(auto const& o : ops) {
			any_view next;
			bool fin = guard::run([&] {
				std::visit([&](auto& v) {
					using V = std::decay_t<decltype(v)>;
					if constexpr(std::is_same_v<V, std::monostate> || std::is_same_v<V, elem0>) { throw unsupported{"op on element"}; }
					else { apply_op<V::rank_v>(v, o, next); }
				}, cur);
			});
			if(!fin) { status = "abort"; return done; }
			std::visit([&](auto& nv) {
				using V = std::decay_t<decltype(nv)>;
				if constexpr(std::is_same_v<V, std::monostate>) { throw unsupported{"no result"}; }
				else if constexpr(std::is_same_v<V, elem0>) { cur.template emplace<elem0>(nv); }
				else { cur.template emplace<V>(std::move(nv)); }
			}, next);
			++done;
		}
	} catch(unsupported const& u) {
		status = "unsupported:" + u.why;
	}
	return done;
}
#endif
