// Replayer for property C07: materialises each pair of operand values in several ownership
// kinds and memory layouts and evaluates the real comparison operators.  No expected values.
//
// input:  C <id> <D> <shapeA..> <nA> <valsA..> <shapeB..> <nB> <valsB..>
// output: {"id":..,"res":[[ka,kb,"eq ne lt le gt ge (a?b) then (b?a) as 12 chars 0/1/x"],...]}
// build variants: default element int / other element long;  -DVERIF_CMP_DOUBLE: element double / other int, where the
// abstract value 2 stands for -0.0 (equal to 0 = +0.0), 3 for a NaN (equal to nothing, itself included) and 4 for 0.5
// (operands holding 2, 3 or 4 have no int counterpart: the int-typed kinds are skipped for them)
#ifdef VERIF_CMP_DOUBLE
#define VERIF_ELEM double
using other_t = int;     // ordering across element types: double against int (a value that does not survive conversion decides)
#else
#define VERIF_ELEM int
using other_t = long;
#endif
#include "viewprog.hpp"
#include <cmath>
#include <limits>
using E = VERIF_ELEM;
template<class X> X conv(long v) {
#ifdef VERIF_CMP_DOUBLE
	if(v == 2) { return static_cast<X>(-0.0); }
	if(v == 3) { return std::numeric_limits<X>::quiet_NaN(); }
	if(v == 4) { return static_cast<X>(0.5); }
#endif
	return static_cast<X>(v);
}

#include <memory>

// kinds of operand
// (padded sub-blocks exist for every shape, also without elements, and report their extents exactly;
//  "_long": the other element type; "const_": a read-only view over a const pointer, as obtained from a const array)
//  "midswap": for D >= 3 a view whose dimensions 1 and 2 are exchanged in memory and whose hull has no gaps)
enum kind_t { K_ARRAY = 0, K_CONST = 1, K_REF = 2, K_ROTVIEW = 3, K_PADVIEW = 4, K_OTHER = 5, K_PADOTHER = 6, K_CPAD = 7, K_MIDSWAP = 8, K_NKINDS = 9 };
static char const* kind_name[] = {"array", "const_array", "array_ref", "rotated_view", "padded_subblock", "array_of_long", "padded_subblock_long", "const_padded_subblock", "midswap_view"};

template<int D, std::size_t... K> auto exts(std::vector<long> const& sh, std::index_sequence<K...> /*u*/) { return multi::extensions_t<D>{multi::iextension(0, sh[K])...}; }
template<int D> auto exts(std::vector<long> const& sh) { return exts<D>(sh, std::make_index_sequence<D>{}); }

template<class V> void fill_view(V&& v, std::vector<long> const& vals, std::size_t& k) {
	constexpr int DD = std::decay_t<V>::rank_v;
	for(auto i : v.extension()) {
		if constexpr(DD == 1) { v[i] = conv<typename std::decay_t<V>::element_type>(vals[k++]); } else { fill_view(v[i], vals, k); }
	}
}

template<int D> struct operand {
	std::vector<long> shape, vals;
	multi::array<E, D> arr;           // K_ARRAY, K_CONST
	std::vector<E> buf;               // K_REF
	std::unique_ptr<multi::array_ref<E, D>> ref;
	multi::array<E, D> rot_backing;   // K_ROTVIEW
	std::unique_ptr<view_t<D>> rot;
	multi::array<E, D> pad_backing;   // K_PADVIEW, K_CPAD
	std::unique_ptr<view_t<D>> pad;
	multi::array<other_t, D> other;        // K_OTHER
	multi::array<other_t, D> pad_other_backing;   // K_PADOTHER
	multi::array<E, D> mid_backing;   // K_MIDSWAP
	std::unique_ptr<view_t<D>> mid;
	bool views_ok = false;   // rotated view (needs elements)
	bool pad_ok = false;
	bool other_ok = true;    // the values are representable in the other element type

	// the sub-block [1, 1+s) in every dimension of an array padded by one on every side
	template<class A> static auto block_of(A& backing, std::vector<long> const& shape) {
		return block_impl(backing, shape, std::make_index_sequence<D>{});
	}
	template<class A, std::size_t... K> static auto block_impl(A& backing, std::vector<long> const& shape, std::index_sequence<K...> /*u*/) {
		return backing(multi::irange(1, 1 + shape[K])...);
	}

	operand(std::vector<long> sh, std::vector<long> vs) : shape(std::move(sh)), vals(std::move(vs)) {
		std::size_t k = 0;
		arr = multi::array<E, D>(exts<D>(shape));
		if(!vals.empty()) { fill_view(arr(), vals, k); }
		for(auto v : vals) { buf.push_back(conv<E>(v)); }
		if(buf.empty()) { buf.push_back(0); }
		ref = std::make_unique<multi::array_ref<E, D>>(buf.data(), exts<D>(shape));
		other = multi::array<other_t, D>(exts<D>(shape));
		k = 0;
		if(!vals.empty()) { fill_view(other(), vals, k); }
		// a sub-block of a larger array (padding on both sides of every dimension); exists for shapes without elements too
		std::vector<long> psh(shape);
		for(auto& s : psh) { s += 2; }
		pad_backing = multi::array<E, D>(exts<D>(psh), conv<E>(-9));
		pad_other_backing = multi::array<other_t, D>(exts<D>(psh), conv<other_t>(-9));
		{
			auto&& blk = block_of(pad_backing, shape);
			pad = std::make_unique<view_t<D>>(blk.layout(), const_cast<E*>(blk.base()));
			k = 0; if(!vals.empty()) { fill_view(*pad, vals, k); }
			auto&& oblk = block_of(pad_other_backing, shape);
			k = 0; if(!vals.empty()) { fill_view(oblk, vals, k); }
			pad_ok = true;
		}
		if(!vals.empty()) {
			// a view whose logical shape is `shape` but whose memory order is rotated
			std::vector<long> ush(shape);
			if(D > 1) { ush.insert(ush.begin(), ush.back()); ush.pop_back(); } else { ush[0] *= 2; }
			rot_backing = multi::array<E, D>(exts<D>(ush), conv<E>(-7));
			if constexpr(D > 1) { rot = std::make_unique<view_t<D>>(norm(rot_backing.rotated())); }
			else { rot = std::make_unique<view_t<D>>(norm(rot_backing.strided(2))); }
			k = 0; fill_view(*rot, vals, k);
			views_ok = true;
			if constexpr(D >= 3) {
				std::vector<long> msh(shape); std::swap(msh[1], msh[2]);
				mid_backing = multi::array<E, D>(exts<D>(msh), conv<E>(-7));
				mid = std::make_unique<view_t<D>>(norm(mid_backing.rotated().transposed().unrotated()));
				k = 0; fill_view(*mid, vals, k);
			}
		}
#ifdef VERIF_CMP_DOUBLE
		for(auto v : vals) { if(v >= 2) { other_ok = false; } }
#endif
	}
};

#define VERIF_DETECT(NAME, OP) \
	template<class X, class Y, class = void> struct NAME : std::false_type {}; \
	template<class X, class Y> struct NAME<X, Y, std::void_t<decltype(static_cast<bool>(std::declval<X const&>() OP std::declval<Y const&>()))>> : std::true_type {};
VERIF_DETECT(has_eq, ==)
VERIF_DETECT(has_ne, !=)
VERIF_DETECT(has_lt, <)
VERIF_DETECT(has_le, <=)
VERIF_DETECT(has_gt, >)
VERIF_DETECT(has_ge, >=)

// '0'/'1' result, 'x' stopped by an assertion, 'n' the expression does not compile for these types
template<int D, class Tup, std::size_t... K> void tmpl_sizes_impl(Tup const& t, std::vector<long>& out, std::index_sequence<K...> /*u*/) {
	using boost::multi::detail::get;
	(out.push_back(static_cast<long>(get<K>(t))), ...);
}
template<int D, class Tup> void tmpl_sizes(Tup const& t, std::vector<long>& out) { tmpl_sizes_impl<D>(t, out, std::make_index_sequence<D>{}); }

template<class X, class Y> std::string six(X const& x, Y const& y) {
	std::string r;
	auto put = [&](auto&& f) { bool v = false; if(guard::run([&] { v = f(); })) { r += v ? '1' : '0'; } else { r += 'x'; } };
	if constexpr(has_eq<X, Y>::value) { put([&] { return static_cast<bool>(x == y); }); } else { r += 'n'; }
	if constexpr(has_ne<X, Y>::value) { put([&] { return static_cast<bool>(x != y); }); } else { r += 'n'; }
	if constexpr(has_lt<X, Y>::value) { put([&] { return static_cast<bool>(x < y); }); } else { r += 'n'; }
	if constexpr(has_le<X, Y>::value) { put([&] { return static_cast<bool>(x <= y); }); } else { r += 'n'; }
	if constexpr(has_gt<X, Y>::value) { put([&] { return static_cast<bool>(x > y); }); } else { r += 'n'; }
	if constexpr(has_ge<X, Y>::value) { put([&] { return static_cast<bool>(x >= y); }); } else { r += 'n'; }
	return r;
}

template<int D, class F> void with_kind(operand<D>& o, int k, F&& f) {
	switch(k) {
		case K_ARRAY: f(o.arr); break;
		case K_CONST: f(static_cast<multi::array<E, D> const&>(o.arr)); break;
		case K_REF: f(*o.ref); break;
		case K_ROTVIEW: f(*o.rot); break;
		case K_PADVIEW: f(*o.pad); break;
		case K_OTHER: f(o.other); break;
		case K_PADOTHER: { auto&& v = operand<D>::block_of(o.pad_other_backing, o.shape); f(v); } break;
		case K_MIDSWAP: if constexpr(D >= 3) { f(*o.mid); } break;
		case K_CPAD: { auto&& v = operand<D>::block_of(std::as_const(o.pad_backing), o.shape); f(v); } break;
		default: break;
	}
}

template<int D> void run_pair(long id, std::vector<long> const& sa, std::vector<long> const& va, std::vector<long> const& sb, std::vector<long> const& vb, std::vector<std::pair<int, int>> const& combos) {
	std::ostringstream os;
	os << "{\"id\":" << id << ",\"res\":[";
	operand<D> A(sa, va), Bo(sb, vb);
	bool first = true;
	for(auto [ka, kb] : combos) {
		if((ka == K_ROTVIEW || ka == K_MIDSWAP) && (!A.views_ok || (ka == K_MIDSWAP && D < 3))) { continue; }
		if((kb == K_ROTVIEW || kb == K_MIDSWAP) && (!Bo.views_ok || (kb == K_MIDSWAP && D < 3))) { continue; }
		if((ka == K_OTHER || ka == K_PADOTHER) && !A.other_ok) { continue; }
		if((kb == K_OTHER || kb == K_PADOTHER) && !Bo.other_ok) { continue; }
		std::string ab, ba;
		with_kind<D>(A, ka, [&](auto const& x) {
			with_kind<D>(Bo, kb, [&](auto const& y) {
				ab = six(x, y);
				ba = six(y, x);
			});
		});
		os << (first ? "" : ",") << "[\"" << kind_name[ka] << "\",\"" << kind_name[kb] << "\",\"" << ab << ba << "\"]";
		first = false;
	}
	// D = 1: a as row 0 and b as column 0 of ONE square matrix (two views with the same first element, the same extension
	// and different strides), when their first elements agree
	if constexpr(D == 1) {
		if(!va.empty() && va.size() == vb.size() && va[0] == vb[0]) {
			long const n = static_cast<long>(va.size());
			multi::array<E, 2> M({n, n}, conv<E>(-9));
			for(long j = 0; j != n; ++j) { M[0][j] = conv<E>(va[static_cast<std::size_t>(j)]); M[j][0] = conv<E>(vb[static_cast<std::size_t>(j)]); }
			std::string ab, ba;
			bool fin = guard::run([&] { auto&& r = M[0]; auto&& c = M.rotated()[0]; ab = six(r, c); ba = six(c, r); });
			if(fin) { os << (first ? "" : ",") << "[\"row_of_matrix\",\"column_of_same_matrix\",\"" << ab << ba << "\"]"; first = false; }
		}
	}
	// aliasing operands: when b's logical contents are those of a dimension-permuting view of a's own
	// storage, compare a with that view (same base pointer, same storage, different strides)
	if constexpr(D > 1) { if(A.views_ok) {
		auto try_alias = [&](char const* nm, auto&& mkview) {
			bool applicable = false;
			std::string ab, ba;
			guard::run([&] {
				auto v = mkview();
				std::vector<long> sh; std::vector<long> vv;
				{ using boost::multi::detail::get; auto sz = v.sizes(); sh.push_back(static_cast<long>(get<0>(sz))); }
				if(static_cast<long>(v.num_elements()) != static_cast<long>(vb.size())) { return; }
				std::vector<long> full;
				{ auto xs = v.sizes(); std::vector<long> tmp; tmpl_sizes<D>(xs, tmp); full = tmp; }
				if(full != sb) { return; }
				{ std::vector<E> have, want; for(auto const& e : v.elements()) { have.push_back(e); } for(auto x : vb) { want.push_back(conv<E>(x)); }
				  if(have.size() != want.size()) { return; }
				  for(std::size_t q = 0; q != have.size(); ++q) { if(!(have[q] == want[q]) || std::signbit(static_cast<double>(have[q])) != std::signbit(static_cast<double>(want[q]))) { return; } } }
				applicable = true;
				ab = six(A.arr, v);
				ba = six(v, A.arr);
			});
			if(applicable) { os << (first ? "" : ",") << "[\"array\",\"" << nm << "\",\"" << ab << ba << "\"]"; first = false; }
		};
		try_alias("alias_rotated", [&] { return norm(A.arr.rotated()); });
		try_alias("alias_unrotated", [&] { return norm(A.arr.unrotated()); });
		try_alias("alias_transposed", [&] { return norm(A.arr.transposed()); });
		try_alias("alias_self", [&] { return norm(A.arr()); });
	} }
	os << "]}\n";
	std::cout << os.str() << std::flush;
}

// zero-dimensional operands: one element each
inline void run_pair0(long id, std::vector<long> const& va, std::vector<long> const& vb) {
	multi::array<E, 0> a(conv<E>(va.at(0))), b(conv<E>(vb.at(0)));
	multi::array<E, 0> const& ca = a;
	std::ostringstream os;
	os << "{\"id\":" << id << ",\"res\":[";
	os << "[\"array\",\"array\",\"" << six(a, b) << six(b, a) << "\"],";
	os << "[\"const_array\",\"array\",\"" << six(ca, b) << six(b, ca) << "\"]";
	os << "]}\n";
	std::cout << os.str() << std::flush;
}

int main(int argc, char** argv) {
	guard::install();
	std::ios::sync_with_stdio(false);
	// kind combinations: all pairs by default; "lean" = a representative subset
	std::vector<std::pair<int, int>> combos;
	bool lean = argc > 1 && std::string(argv[1]) == "lean";
	bool midonly = argc > 1 && std::string(argv[1]) == "mid";   // only the combinations involving the middle-swapped view
	for(int i = 0; i != K_NKINDS; ++i) { for(int j = 0; j != K_NKINDS; ++j) {
		if(midonly && !((i == K_MIDSWAP && (j == K_MIDSWAP || j == K_ARRAY || j == K_PADVIEW)) || (j == K_MIDSWAP && (i == K_ARRAY || i == K_PADVIEW)))) { continue; }
		if(!midonly && (i == K_MIDSWAP || j == K_MIDSWAP) && !(i == j || i == K_ARRAY || j == K_ARRAY)) { continue; }
		if(lean && !(i == j || i == K_ARRAY || j == K_ARRAY || (i == K_ROTVIEW && j == K_PADVIEW) || (i == K_PADVIEW && j == K_PADOTHER) || (i == K_CPAD && j == K_PADVIEW))) { continue; }
		combos.emplace_back(i, j);
	} }
	std::string line;
	while(std::getline(std::cin, line)) {
		if(line.empty() || line[0] != 'C') { continue; }
		std::istringstream is(line);
		std::string tag; long id = 0; int D = 0;
		is >> tag >> id >> D;
		auto rd = [&](std::vector<long>& sh, std::vector<long>& v) {
			sh.resize(static_cast<std::size_t>(D)); for(auto& s : sh) { is >> s; }
			std::size_t n = 0; is >> n; v.resize(n); for(auto& x : v) { is >> x; }
		};
		std::vector<long> sa, va, sb, vb;
		rd(sa, va); rd(sb, vb);
		guard::context() = id;
		switch(D) {
			case 0: run_pair0(id, va, vb); break;
			case 1: run_pair<1>(id, sa, va, sb, vb, combos); break;
			case 2: run_pair<2>(id, sa, va, sb, vb, combos); break;
			case 3: run_pair<3>(id, sa, va, sb, vb, combos); break;
			case 4: run_pair<4>(id, sa, va, sb, vb, combos); break;
			default: std::cout << "{\"id\":" << id << ",\"res\":[]}\n";
		}
	}
	return 0;
}
