// Replayer for property C07: materialises each pair of operand values in several ownership
// kinds and memory layouts and evaluates the real comparison operators.  No expected values.
//
// input:  C <id> <D> <shapeA..> <nA> <valsA..> <shapeB..> <nB> <valsB..>
// output: {"id":..,"res":[[ka,kb,"eq ne lt le gt ge (a?b) then (b?a) as 12 chars 0/1/x"],...]}
#define VERIF_ELEM int
#include "viewprog.hpp"

#include <memory>

// kinds of operand
enum kind_t { K_ARRAY = 0, K_CONST = 1, K_REF = 2, K_ROTVIEW = 3, K_PADVIEW = 4, K_OTHER = 5, K_NKINDS = 6 };
static char const* kind_name[] = {"array", "const_array", "array_ref", "rotated_view", "padded_subblock", "array_of_long"};

template<int D, std::size_t... K> auto exts(std::vector<long> const& sh, std::index_sequence<K...> /*u*/) { return multi::extensions_t<D>{multi::iextension(0, sh[K])...}; }
template<int D> auto exts(std::vector<long> const& sh) { return exts<D>(sh, std::make_index_sequence<D>{}); }

template<class V> void fill_view(V&& v, std::vector<long> const& vals, std::size_t& k) {
	constexpr int DD = std::decay_t<V>::rank_v;
	for(auto i : v.extension()) {
		if constexpr(DD == 1) { v[i] = static_cast<typename std::decay_t<V>::element_type>(vals[k++]); } else { fill_view(v[i], vals, k); }
	}
}

template<int D> struct operand {
	std::vector<long> shape, vals;
	multi::array<int, D> arr;           // K_ARRAY, K_CONST
	std::vector<int> buf;               // K_REF
	std::unique_ptr<multi::array_ref<int, D>> ref;
	multi::array<int, D> rot_backing;   // K_ROTVIEW
	std::unique_ptr<view_t<D>> rot;
	multi::array<int, D> pad_backing;   // K_PADVIEW
	std::unique_ptr<view_t<D>> pad;
	multi::array<long, D> other;        // K_OTHER
	bool views_ok = false;

	operand(std::vector<long> sh, std::vector<long> vs) : shape(std::move(sh)), vals(std::move(vs)) {
		std::size_t k = 0;
		arr = multi::array<int, D>(exts<D>(shape));
		if(!vals.empty()) { fill_view(arr(), vals, k); }
		buf.assign(vals.begin(), vals.end());
		if(buf.empty()) { buf.push_back(0); }
		ref = std::make_unique<multi::array_ref<int, D>>(buf.data(), exts<D>(shape));
		other = multi::array<long, D>(exts<D>(shape));
		k = 0;
		if(!vals.empty()) { fill_view(other(), vals, k); }
		if(!vals.empty()) {
			// a view whose logical shape is `shape` but whose memory order is rotated
			std::vector<long> ush(shape);
			if(D > 1) { ush.insert(ush.begin(), ush.back()); ush.pop_back(); } else { ush[0] *= 2; }
			rot_backing = multi::array<int, D>(exts<D>(ush), -7);
			if constexpr(D > 1) { rot = std::make_unique<view_t<D>>(norm(rot_backing.rotated())); }
			else { rot = std::make_unique<view_t<D>>(norm(rot_backing.strided(2))); }
			k = 0; fill_view(*rot, vals, k);
			// a sub-block of a larger array (padding on both sides of every dimension)
			std::vector<long> psh(shape);
			for(auto& s : psh) { s += 2; }
			pad_backing = multi::array<int, D>(exts<D>(psh), -9);
			op_t o; o.name = "paren";
			for(auto s : shape) { o.a.push_back(1); o.a.push_back(1); o.a.push_back(1 + s); }
			any_view out; view_t<D> base = norm(pad_backing());
			apply_op<D>(base, o, out);
			auto* p = std::get_if<view_t<D>>(&out);
			pad = std::make_unique<view_t<D>>(p->layout(), const_cast<int*>(p->base()));
			k = 0; fill_view(*pad, vals, k);
			views_ok = true;
		}
	}
};

#define VERIF_DETECT(NAME, OP) \
	template<class X, class Y, class = void> struct NAME : std::false_type {}; \
	template<class X, class Y> struct NAME<X, Y, std::void_t<decltype(static_cast<bool>(std::declval<X const&>() OP std::declval<Y const&>()))>> : std::true_type {};
VERIF_DETECT(has_eq, ==)
VERIF_DETECT(has_ne, !=)
VERIF_DETECT(has_lt, <)
VERIF_DETECT(has_le, <=)
VERIF_DETECT(has_gt, >)
VERIF_DETECT(has_ge, >=)

// '0'/'1' result, 'x' stopped by an assertion, 'n' the expression does not compile for these types
template<int D, class Tup, std::size_t... K> void tmpl_sizes_impl(Tup const& t, std::vector<long>& out, std::index_sequence<K...> /*u*/) {
	using boost::multi::detail::get;
	(out.push_back(static_cast<long>(get<K>(t))), ...);
}
template<int D, class Tup> void tmpl_sizes(Tup const& t, std::vector<long>& out) { tmpl_sizes_impl<D>(t, out, std::make_index_sequence<D>{}); }

template<class X, class Y> std::string six(X const& x, Y const& y) {
	std::string r;
	auto put = [&](auto&& f) { bool v = false; if(guard::run([&] { v = f(); })) { r += v ? '1' : '0'; } else { r += 'x'; } };
	if constexpr(has_eq<X, Y>::value) { put([&] { return static_cast<bool>(x == y); }); } else { r += 'n'; }
	if constexpr(has_ne<X, Y>::value) { put([&] { return static_cast<bool>(x != y); }); } else { r += 'n'; }
	if constexpr(has_lt<X, Y>::value) { put([&] { return static_cast<bool>(x < y); }); } else { r += 'n'; }
	if constexpr(has_le<X, Y>::value) { put([&] { return static_cast<bool>(x <= y); }); } else { r += 'n'; }
	if constexpr(has_gt<X, Y>::value) { put([&] { return static_cast<bool>(x > y); }); } else { r += 'n'; }
	if constexpr(has_ge<X, Y>::value) { put([&] { return static_cast<bool>(x >= y); }); } else { r += 'n'; }
	return r;
}

template<int D, class F> void with_kind(operand<D>& o, int k, F&& f) {
	switch(k) {
		case K_ARRAY: f(o.arr); break;
		case K_CONST: f(static_cast<multi::array<int, D> const&>(o.arr)); break;
		case K_REF: f(*o.ref); break;
		case K_ROTVIEW: f(*o.rot); break;
		case K_PADVIEW: f(*o.pad); break;
		case K_OTHER: f(o.other); break;
		default: break;
	}
}

template<int D> void run_pair(long id, std::vector<long> const& sa, std::vector<long> const& va, std::vector<long> const& sb, std::vector<long> const& vb, std::vector<std::pair<int, int>> const& combos) {
	std::ostringstream os;
	os << "{\"id\":" << id << ",\"res\":[";
	operand<D> A(sa, va), Bo(sb, vb);
	bool first = true;
	for(auto [ka, kb] : combos) {
		if((ka == K_ROTVIEW || ka == K_PADVIEW) && !A.views_ok) { continue; }
		if((kb == K_ROTVIEW || kb == K_PADVIEW) && !Bo.views_ok) { continue; }
		std::string ab, ba;
		with_kind<D>(A, ka, [&](auto const& x) {
			with_kind<D>(Bo, kb, [&](auto const& y) {
				ab = six(x, y);
				ba = six(y, x);
			});
		});
		os << (first ? "" : ",") << "[\"" << kind_name[ka] << "\",\"" << kind_name[kb] << "\",\"" << ab << ba << "\"]";
		first = false;
	}
	// aliasing operands: when b's logical contents are those of a dimension-permuting view of a's own
	// storage, compare a with that view (same base pointer, same storage, different strides)
	if constexpr(D > 1) { if(A.views_ok) {
		auto try_alias = [&](char const* nm, auto&& mkview) {
			bool applicable = false;
			std::string ab, ba;
			guard::run([&] {
				auto v = mkview();
				std::vector<long> sh; std::vector<long> vv;
				{ using boost::multi::detail::get; auto sz = v.sizes(); sh.push_back(static_cast<long>(get<0>(sz))); }
				if(static_cast<long>(v.num_elements()) != static_cast<long>(vb.size())) { return; }
				std::vector<long> full;
				{ auto xs = v.sizes(); std::vector<long> tmp; tmpl_sizes<D>(xs, tmp); full = tmp; }
				if(full != sb) { return; }
				for(auto const& e : v.elements()) { vv.push_back(e); }
				if(vv != vb) { return; }
				applicable = true;
				ab = six(A.arr, v);
				ba = six(v, A.arr);
			});
			if(applicable) { os << (first ? "" : ",") << "[\"array\",\"" << nm << "\",\"" << ab << ba << "\"]"; first = false; }
		};
		try_alias("alias_rotated", [&] { return norm(A.arr.rotated()); });
		try_alias("alias_unrotated", [&] { return norm(A.arr.unrotated()); });
		try_alias("alias_transposed", [&] { return norm(A.arr.transposed()); });
		try_alias("alias_self", [&] { return norm(A.arr()); });
	} }
	os << "]}\n";
	std::cout << os.str() << std::flush;
}

// zero-dimensional operands: one element each
inline void run_pair0(long id, std::vector<long> const& va, std::vector<long> const& vb) {
	multi::array<int, 0> a(static_cast<int>(va.at(0))), b(static_cast<int>(vb.at(0)));
	multi::array<int, 0> const& ca = a;
	std::ostringstream os;
	os << "{\"id\":" << id << ",\"res\":[";
	os << "[\"array\",\"array\",\"" << six(a, b) << six(b, a) << "\"],";
	os << "[\"const_array\",\"array\",\"" << six(ca, b) << six(b, ca) << "\"]";
	os << "]}\n";
	std::cout << os.str() << std::flush;
}

int main(int argc, char** argv) {
	guard::install();
	std::ios::sync_with_stdio(false);
	// kind combinations: all pairs by default; "lean" = a representative subset
	std::vector<std::pair<int, int>> combos;
	bool lean = argc > 1 && std::string(argv[1]) == "lean";
	for(int i = 0; i != K_NKINDS; ++i) { for(int j = 0; j != K_NKINDS; ++j) {
		if(lean && !(i == j || i == K_ARRAY || j == K_ARRAY || (i == K_ROTVIEW && j == K_PADVIEW))) { continue; }
		combos.emplace_back(i, j);
	} }
	std::string line;
	while(std::getline(std::cin, line)) {
		if(line.empty() || line[0] != 'C') { continue; }
		std::istringstream is(line);
		std::string tag; long id = 0; int D = 0;
		is >> tag >> id >> D;
		auto rd = [&](std::vector<long>& sh, std::vector<long>& v) {
			sh.resize(static_cast<std::size_t>(D)); for(auto& s : sh) { is >> s; }
			std::size_t n = 0; is >> n; v.resize(n); for(auto& x : v) { is >> x; }
		};
		std::vector<long> sa, va, sb, vb;
		rd(sa, va); rd(sb, vb);
		guard::context() = id;
		switch(D) {
			case 0: run_pair0(id, va, vb); break;
			case 1: run_pair<1>(id, sa, va, sb, vb, combos); break;
			case 2: run_pair<2>(id, sa, va, sb, vb, combos); break;
			case 3: run_pair<3>(id, sa, va, sb, vb, combos); break;
			case 4: run_pair<4>(id, sa, va, sb, vb, combos); break;
			default: std::cout << "{\"id\":" << id << ",\"res\":[]}\n";
		}
	}
	return 0;
}
