// replay_lapack.cpp -- property C14: executes LAPACK-adaptor cases on the real library and prints
// observations (whole buffers before/after as fixed-point integers, how the call ended, the returned
// view).  It contains no expected values: input matrices are built from the seed, everything the
// library produces is logged verbatim, specs/Lapack.tla decides.
//
// potrf.hpp and geqrf.hpp cannot be included in one translation unit at the pinned commit (both
// introduce a name `filling` into boost::multi::lapack), so this file is compiled once per routine:
//   -DRT_POTRF | -DRT_GEQRF | -DRT_GESVD
//
// stdin:  P <id> <rt> <dt> <uplo> <plant> <form> <seed>  <A desc> <U desc> <V desc>
//         desc = <orient row|col> <pad> <R> <C> <r0> <c0> <m> <n> <G>
// stdout: one JSON object per case
#if defined(RT_POTRF)
#include <boost/multi/adaptors/lapack/potrf.hpp>
#elif defined(RT_GEQRF)
#include <boost/multi/adaptors/lapack/geqrf.hpp>
#elif defined(RT_GESVD)
#include <boost/multi/adaptors/lapack/gesvd.hpp>
#else
#error "define RT_POTRF, RT_GEQRF or RT_GESVD"
#endif
#include <boost/multi/array.hpp>

#include "guard.hpp"

#include <algorithm>
#include <cmath>
#include <complex>
#include <cstdint>
#include <iostream>
#include <sstream>
#include <string>
#include <tuple>
#include <vector>

namespace multi = boost::multi;

// LAPACK's argument-error hook: the reference implementation prints to stdout; record instead
static int g_xerbla = 0;
extern "C" void xerbla_(char const* /*name*/, int const* info, int /*len*/) { g_xerbla = *info; }

struct Desc {
	std::string orient;
	long pad = 0, R = 0, C = 0, r0 = 0, c0 = 0, m = 0, n = 0, G = 0;
	long len() const { return 2 * G + R * C; }
	bool row() const { return orient == "row"; }
};
std::istream& operator>>(std::istream& is, Desc& d) { return is >> d.orient >> d.pad >> d.R >> d.C >> d.r0 >> d.c0 >> d.m >> d.n >> d.G; }

struct Case {
	long id = 0;
	std::string rt, dt, uplo, form;
	long plant = -1;
	std::uint64_t seed = 0;
	Desc A, U, V;
};

struct Rng {  // splitmix64
	std::uint64_t s;
	std::uint64_t next() {
		std::uint64_t z = (s += 0x9E3779B97F4A7C15ULL);
		z = (z ^ (z >> 30)) * 0xBF58476D1CE4E5B9ULL;
		z = (z ^ (z >> 27)) * 0x94D049BB133111EBULL;
		return z ^ (z >> 31);
	}
	long in(long lo, long hi) { return lo + static_cast<long>(next() % static_cast<std::uint64_t>(hi - lo + 1)); }
	double garbage() { long v = in(100, 250); return static_cast<double>(in(0, 1) ? v : -v); }
};

template<class T> struct is_cx : std::false_type {};
template<class R> struct is_cx<std::complex<R>> : std::true_type {};
template<class T> T mk(double re, double im) { if constexpr(is_cx<T>::value) { return T(static_cast<typename T::value_type>(re), static_cast<typename T::value_type>(im)); } else { (void)im; return static_cast<T>(re); } }
template<class T> double re_of(T const& x) { if constexpr(is_cx<T>::value) { return static_cast<double>(x.real()); } else { return static_cast<double>(x); } }
template<class T> double im_of(T const& x) { if constexpr(is_cx<T>::value) { return static_cast<double>(x.imag()); } else { (void)x; return 0.0; } }
template<class T> T cj(T const& x) { return mk<T>(re_of(x), -im_of(x)); }

constexpr long FIX = 4096;
constexpr long CLAMP = (1L << 20) - 1;
long fixed(double x) {
	if(!(x == x)) { return CLAMP; }
	double y = x * static_cast<double>(FIX);
	if(y > static_cast<double>(CLAMP)) { return CLAMP; }
	if(y < -static_cast<double>(CLAMP)) { return -CLAMP; }
	return std::llround(y);
}

template<class T> std::string jbuf(std::vector<T> const& b, bool imag) {
	std::string s = "[";
	for(std::size_t k = 0; k != b.size(); ++k) { if(k) { s += ','; } s += std::to_string(fixed(imag ? im_of(b[k]) : re_of(b[k]))); }
	return s + "]";
}
std::string jcells(std::vector<std::vector<long>> const& c) {
	std::string s = "[";
	for(std::size_t i = 0; i != c.size(); ++i) {
		if(i) { s += ','; }
		s += '[';
		for(std::size_t j = 0; j != c[i].size(); ++j) { if(j) { s += ','; } s += std::to_string(c[i][j]); }
		s += ']';
	}
	return s + "]";
}

// the operand view described by d over buf, passed to f as an lvalue
template<class T, class F> void with_view(std::vector<T>& buf, Desc const& d, F&& f) {
	multi::array_ref<T, 2> P(buf.data() + d.G, multi::extensions_t<2>{d.R, d.C});
	if(d.row()) {
		if(d.pad == 0) { f(P); }
		else { auto&& A = P({d.r0, d.r0 + d.m}, {d.c0, d.c0 + d.n}); f(A); }
	} else {
		if(d.pad == 0) { auto&& A = ~P; f(A); }
		else { auto&& A = ~(P({d.r0, d.r0 + d.n}, {d.c0, d.c0 + d.m})); f(A); }
	}
}

template<class T, class View> std::vector<std::vector<long>> cells_of(View const& A, std::vector<T> const& buf, long rows, long cols) {
	std::vector<std::vector<long>> c(static_cast<std::size_t>(rows));
	for(long i = 0; i != rows; ++i) { for(long j = 0; j != cols; ++j) { c[i].push_back(static_cast<long>(&A[i][j] - buf.data())); } }
	return c;
}

struct Outcome {
	std::string st = "ok", rej = "null";
	template<class F> void run(F&& f) {
		g_xerbla = 0;
		bool done = guard::run([&] {
			try { f(); }
			catch(std::exception const& e) { st = "reject"; rej = "{\"kind\":\"exception\",\"what\":\"" + guard::jesc(std::string(e.what()).substr(0, 100)) + "\"}"; }
			catch(...) { st = "reject"; rej = "{\"kind\":\"exception\",\"what\":\"?\"}"; }
		});
		if(!done) {
			st = guard::last().kind == "assert" ? "reject" : "crash";
			rej = guard::last_json();
		}
	}
	std::string json() const { return "\"st\":\"" + st + "\",\"rej\":" + rej + ",\"xerbla\":" + std::to_string(g_xerbla); }
};

#if defined(RT_POTRF)
template<class T> void do_potrf(Case const& c) {
	namespace lapack = multi::lapack;
	Desc const& d = c.A;
	long const n = d.m;   // the order of the matrix: the rows of the view (d.m <= d.n; further columns are not part of it)
	Rng rng{c.seed};
	std::vector<T> buf(static_cast<std::size_t>(d.len()));
	for(auto& x : buf) { x = mk<T>(rng.garbage(), is_cx<T>::value ? rng.garbage() : 0.0); }
	// input: H = L.L^H with integer L, power-of-two diagonal; optionally the pivot at `plant` made non-positive
	std::vector<std::vector<T>> L(n, std::vector<T>(n, T{})), H(n, std::vector<T>(n, T{}));
	for(long i = 0; i != n; ++i) {
		for(long j = 0; j != i; ++j) { L[i][j] = mk<T>(static_cast<double>(rng.in(-2, 2)), is_cx<T>::value ? static_cast<double>(rng.in(-2, 2)) : 0.0); }
		L[i][i] = mk<T>(static_cast<double>(1L << rng.in(0, 2)), 0.0);
	}
	for(long i = 0; i != n; ++i) { for(long j = 0; j != n; ++j) { T s{}; for(long k = 0; k != n; ++k) { s += L[i][k] * cj(L[j][k]); } H[i][j] = s; } }
	if(c.plant >= 0) {
		long const p = c.plant;
		double s = 0;
		for(long j = 0; j != p; ++j) { s += re_of(L[p][j] * cj(L[p][j])); }
		H[p][p] = mk<T>(s - static_cast<double>(rng.in(0, 1)), 0.0);
	}
	bool const lower = c.uplo == "L";
	std::vector<T> before;
	std::vector<std::vector<long>> cells, rcells;
	long rows = -1, cols = -1;
	Outcome oc;
	with_view(buf, d, [&](auto& A) {
		for(long i = 0; i != n; ++i) { for(long j = 0; j != n; ++j) { if(lower ? j <= i : i <= j) { A[i][j] = H[i][j]; } } }   // the other triangle keeps its garbage
		cells = cells_of(A, buf, d.m, d.n);
		before = buf;
		oc.run([&] {
			auto&& r = lapack::potrf(lower ? lapack::filling::lower : lapack::filling::upper, A);
			rows = static_cast<long>(r.size());
			cols = rows > 0 ? static_cast<long>((~r).size()) : 0;
			if(rows >= 0 && rows <= d.m && cols >= 0 && cols <= d.n) { rcells = cells_of(r, buf, rows, cols); }
		});
	});
	std::cout << "{\"id\":" << c.id << "," << oc.json() << ",\"cells\":" << jcells(cells)
	          << ",\"A0\":" << jbuf(before, false) << ",\"A0i\":" << jbuf(before, true) << ",\"A1\":" << jbuf(buf, false) << ",\"A1i\":" << jbuf(buf, true)
	          << ",\"ret\":{\"rows\":" << rows << ",\"cols\":" << cols << ",\"cells\":" << jcells(rcells) << "}}" << std::endl;
}
#endif

#if defined(RT_GEQRF)
void do_geqrf(Case const& c) {
	namespace lapack = multi::lapack;
	Desc const& d = c.A;
	long const k = std::min(d.m, d.n), TG = 8;
	Rng rng{c.seed};
	std::vector<double> buf(static_cast<std::size_t>(d.len())), tb(static_cast<std::size_t>(2 * TG + k));
	for(auto& x : buf) { x = rng.garbage(); }
	for(auto& x : tb) { x = rng.garbage(); }
	std::vector<double> before, tbefore;
	std::vector<std::vector<long>> cells;
	Outcome oc;
	with_view(buf, d, [&](auto& A) {
		for(long i = 0; i != d.m; ++i) { for(long j = 0; j != d.n; ++j) { A[i][j] = static_cast<double>(rng.in(-8, 8)); } }
		cells = cells_of(A, buf, d.m, d.n);
		before = buf;
		tbefore = tb;
		multi::array_ref<double, 1> tau(tb.data() + TG, multi::extensions_t<1>{k});
		oc.run([&] { lapack::geqrf(A, tau); });
	});
	std::cout << "{\"id\":" << c.id << "," << oc.json() << ",\"cells\":" << jcells(cells)
	          << ",\"A0\":" << jbuf(before, false) << ",\"A1\":" << jbuf(buf, false)
	          << ",\"TG\":" << TG << ",\"T0\":" << jbuf(tbefore, false) << ",\"T1\":" << jbuf(tb, false) << "}" << std::endl;
}
#endif

#if defined(RT_GESVD)
void do_gesvd(Case const& c) {
	namespace lapack = multi::lapack;
	Desc const& d = c.A;
	long const m = d.m, n = d.n, k = std::min(m, n), SG = 8;
	Rng rng{c.seed};
	std::vector<double> abuf(static_cast<std::size_t>(d.len())), ubuf(static_cast<std::size_t>(c.U.len())), vbuf(static_cast<std::size_t>(c.V.len())), sbuf(static_cast<std::size_t>(2 * SG + k));
	for(auto* b : {&abuf, &ubuf, &vbuf, &sbuf}) { for(auto& x : *b) { x = rng.garbage(); } }
	std::vector<double> a0, u0, v0, s0;
	std::vector<std::vector<long>> cells;
	Outcome oc;
	if(c.form == "copy") {
		// gesvd(A const&) -> tuple(U, s, VT) of fresh arrays; logged as guard-less buffers
		multi::array<double, 2> AA(multi::extensions_t<2>{m, n});
		for(long i = 0; i != m; ++i) { for(long j = 0; j != n; ++j) { AA[i][j] = static_cast<double>(rng.in(-8, 8)); } }
		abuf.assign(AA.data_elements(), AA.data_elements() + AA.num_elements());
		a0 = abuf;
		for(long i = 0; i != m; ++i) { cells.emplace_back(); for(long j = 0; j != n; ++j) { cells.back().push_back(static_cast<long>(&AA[i][j] - AA.data_elements())); } }
		ubuf.assign(static_cast<std::size_t>(m * m), 0.0); vbuf.assign(static_cast<std::size_t>(n * n), 0.0); sbuf.assign(static_cast<std::size_t>(2 * SG + k), 0.0);
		u0 = ubuf; v0 = vbuf; s0 = sbuf;
		oc.run([&] {
			auto res = lapack::gesvd(AA);
			auto const& UU = std::get<0>(res); auto const& ss = std::get<1>(res); auto const& VV = std::get<2>(res);
			if(UU.num_elements() == m * m && VV.num_elements() == n * n && ss.num_elements() == k) {
				for(long i = 0; i != m; ++i) { for(long j = 0; j != m; ++j) { ubuf[static_cast<std::size_t>(i * m + j)] = UU[i][j]; } }
				for(long i = 0; i != n; ++i) { for(long j = 0; j != n; ++j) { vbuf[static_cast<std::size_t>(i * n + j)] = VV[i][j]; } }
				for(long i = 0; i != k; ++i) { sbuf[static_cast<std::size_t>(SG + i)] = ss[i]; }
			}
		});
		abuf.assign(AA.data_elements(), AA.data_elements() + AA.num_elements());
	} else {
		with_view(abuf, d, [&](auto& A) {
			for(long i = 0; i != m; ++i) { for(long j = 0; j != n; ++j) { A[i][j] = static_cast<double>(rng.in(-8, 8)); } }
			cells = cells_of(A, abuf, m, n);
			a0 = abuf; u0 = ubuf; v0 = vbuf; s0 = sbuf;
			multi::array_ref<double, 1> ss(sbuf.data() + SG, multi::extensions_t<1>{k});
			with_view(ubuf, c.U, [&](auto& UU) {
				with_view(vbuf, c.V, [&](auto& VT) {
					oc.run([&] { lapack::gesvd(A, UU, ss, VT); });
				});
			});
		});
	}
	std::cout << "{\"id\":" << c.id << "," << oc.json() << ",\"cells\":" << jcells(cells)
	          << ",\"A0\":" << jbuf(a0, false) << ",\"A1\":" << jbuf(abuf, false)
	          << ",\"U0\":" << jbuf(u0, false) << ",\"U1\":" << jbuf(ubuf, false)
	          << ",\"V0\":" << jbuf(v0, false) << ",\"V1\":" << jbuf(vbuf, false)
	          << ",\"SG\":" << SG << ",\"S0\":" << jbuf(s0, false) << ",\"S1\":" << jbuf(sbuf, false) << "}" << std::endl;
}
#endif

int main() {
	guard::install();
	std::string line;
	while(std::getline(std::cin, line)) {
		std::istringstream is(line);
		std::string tag;
		Case c;
		if(!(is >> tag >> c.id >> c.rt >> c.dt >> c.uplo >> c.plant >> c.form >> c.seed >> c.A >> c.U >> c.V) || tag != "P") { continue; }
		guard::context() = c.id;
		bool handled = false;
#if defined(RT_POTRF)
		if(c.rt == "potrf") {
			handled = true;
			if(c.dt == "s") { do_potrf<float>(c); }
			else if(c.dt == "d") { do_potrf<double>(c); }
			else if(c.dt == "c") { do_potrf<std::complex<float>>(c); }
			else if(c.dt == "z") { do_potrf<std::complex<double>>(c); }
			else { handled = false; }
		}
#elif defined(RT_GEQRF)
		if(c.rt == "geqrf" && c.dt == "d") { handled = true; do_geqrf(c); }
#elif defined(RT_GESVD)
		if(c.rt == "gesvd" && c.dt == "d") { handled = true; do_gesvd(c); }
#endif
		if(!handled) { std::cout << "{\"id\":" << c.id << ",\"st\":\"unsupported\"}" << std::endl; }
	}
	return 0;
}
