// replay_blas_forms.hpp -- call forms of the BLAS adaptor that do not compile for every element type / operand
// kind on every revision of the library.  Each form is ONE macro used both by the probe translation unit
// (replay_blas_probe.cpp, compiled with -fsyntax-only: does the form compile?) and by the replayer
// (replay_blas.cpp, which executes the form only when the driver passes -DC13_F_<NAME>_<type letter>).
// A form that does not compile is reported by the replayer with status "nocompile"; whether that is an
// acceptable rejection is decided by specs/Blas.tla (Listed).
#ifndef VERIF_REPLAY_BLAS_FORMS_HPP
#define VERIF_REPLAY_BLAS_FORMS_HPP

// trsm with both operands conjugated: A, B conjugated views, Bm an rvalue view
#define C13_FORM_TRSM_CC(side, fill, diag, alpha, A, Bm) blas::trsm(side, fill, diag, alpha, A, Bm)
// dot with both operands conjugated
#define C13_FORM_DOT_CC(x, y, res) blas::dot(x, y, res)
// res = asum(x) on a view / on an owning array
#define C13_FORM_ASUM_CONV(r, x) r = blas::asum(x)
#define C13_FORM_ASUM_DECAY(r, x) r = +blas::asum(x)
// iamax(x)
#define C13_FORM_IAMAX_CALL(r, x) r = blas::iamax(x)
// aa*(A*B)
#define C13_FORM_GEMM_SOPER(R, alpha, A, B) { using namespace blas::operators; R = (alpha) * ((A) * (B)); }
// x ^ y
#define C13_FORM_SWAP_OPER(x, y) { using namespace blas::operators; (x) ^ (y); }

// the short forms of herk: without beta, both triangles, alpha = 1, returning a new array
#define C13_FORM_HERK_NOBETA(fl, a, A, Cm) blas::herk(fl, a, A, Cm)
#define C13_FORM_HERK_BOTH(a, A, Cm) blas::herk(a, A, Cm)
#define C13_FORM_HERK_BOTH1(A, Cm) blas::herk(A, Cm)
#define C13_FORM_HERK_RET(R, a, A) { multi::array<T, 2> tmp_ = blas::herk(a, A); R = std::move(tmp_); }
#define C13_FORM_HERK_RET1(R, A) { multi::array<T, 2> tmp_ = blas::herk(A); R = std::move(tmp_); }

#endif
