// guard.hpp -- run a piece of library code so that a failed assertion (glibc assert ->
// __assert_fail), an arithmetic trap or a segmentation fault is recorded and control
// returns to the harness instead of ending the process.  Shared by all replayers.
//
// The harness defines __assert_fail itself (the executable's definition takes precedence over
// libc's), so every `assert`/BOOST_MULTI_ASSERT in the library lands here.
#ifndef VERIF_GUARD_HPP
#define VERIF_GUARD_HPP

#include <csetjmp>
#include <exception>
#include <csignal>
#include <cstdio>
#include <cstdlib>
#include <cstring>
#include <string>
#include <unistd.h>

namespace guard {

struct event_t {
	std::string kind;  // "assert" | "SIGFPE" | "SIGSEGV" | "SIGABRT" | "terminate"
	std::string expr;
	std::string file;
	unsigned line = 0;
};

inline sigjmp_buf& env() { static sigjmp_buf e; return e; }
inline bool& armed() { static bool a = false; return a; }
inline event_t& last() { static event_t e; return e; }
inline long& context() { static long c = -1; return c; }  // id of the program being replayed (reported on fatal exit)
inline void announce() { char b[48]; int n = std::snprintf(b, sizeof(b), "\n@%ld\n", context()); if(n > 0) { (void)!write(2, b, static_cast<std::size_t>(n)); } }

inline std::string jesc(std::string const& s) {
	std::string r;
	for(char c : s) {
		if(c == '"' || c == '\\') { r += '\\'; r += c; }
		else if(static_cast<unsigned char>(c) < 0x20) { r += ' '; }
		else { r += c; }
	}
	return r;
}

// JSON object describing the last event; file is reduced to the path below "include/"
inline std::string last_json() {
	auto const& e = last();
	std::string f = e.file;
	auto p = f.find("include/boost/multi");
	bool lib = p != std::string::npos;
	if(lib) { f = f.substr(p + 8); }
	return "{\"kind\":\"" + e.kind + "\",\"lib\":" + (lib ? "true" : "false") + ",\"file\":\"" + jesc(f) + "\",\"line\":" + std::to_string(e.line) +
	       ",\"expr\":\"" + jesc(e.expr.substr(0, 120)) + "\"}";
}

inline void on_signal(int sig) {
	if(!armed()) {
		char const msg[] = "guard: fatal signal outside a guarded region\n";
		(void)!write(2, msg, sizeof(msg) - 1);
		announce();
		_exit(128 + sig);
	}
	last().kind = sig == SIGFPE ? "SIGFPE" : sig == SIGSEGV ? "SIGSEGV" : sig == SIGBUS ? "SIGBUS" : "SIGABRT";
	last().expr = "";
	last().file = "";
	last().line = 0;
	siglongjmp(env(), 1);
}

inline void on_terminate() {
	// an exception met a noexcept boundary (or was not caught): record and return to the harness
	if(!armed()) { char const msg[] = "guard: std::terminate outside a guarded region\n"; (void)!write(2, msg, sizeof(msg) - 1); announce(); _exit(135); }
	last().kind = "terminate";
	last().expr = ""; last().file = ""; last().line = 0;
	siglongjmp(env(), 1);
}

inline void install() {
	std::set_terminate(on_terminate);
	struct sigaction sa;
	std::memset(&sa, 0, sizeof(sa));
	sa.sa_handler = on_signal;
	sa.sa_flags = SA_NODEFER;
	sigaction(SIGFPE, &sa, nullptr);
	sigaction(SIGSEGV, &sa, nullptr);
	sigaction(SIGBUS, &sa, nullptr);
	sigaction(SIGABRT, &sa, nullptr);
}

// returns true when f ran to completion, false when it was stopped (see last())
template<class F> bool run(F&& f) {
	armed() = true;
	if(sigsetjmp(env(), 1) == 0) {
		f();
		armed() = false;
		return true;
	}
	armed() = false;
	return false;
}

}  // namespace guard

extern "C" void __assert_fail(char const* expr, char const* file, unsigned int line, char const* func) noexcept __attribute__((noreturn));
extern "C" void __assert_fail(char const* expr, char const* file, unsigned int line, char const* /*func*/) noexcept {
	if(!guard::armed()) {
		std::fprintf(stderr, "guard: %s:%u: Assertion `%s' failed outside a guarded region.\n", file, line, expr);
		std::fflush(stderr);
		guard::announce();
		_exit(134);
	}
	guard::last().kind = "assert";
	guard::last().expr = expr ? expr : "";
	guard::last().file = file ? file : "";
	guard::last().line = line;
	siglongjmp(guard::env(), 1);
}

#endif
