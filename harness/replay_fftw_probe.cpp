// Compile-and-run probes for property C15: front ends of the lazy DFT range of adaptors/fft.hpp whose
// instantiation is itself the observation (compiled one probe at a time with -DVERIF_PROBE=n; a compile
// failure is reported by the driver).  When a probe compiles, it prints the input and the produced
// output in fixed point (scale 256) as one JSON record of the format of replay_fftw.cpp, which is then
// validated by specs/Fftw.tla like every other record.  No expected values in here.
//   VERIF_PROBE 1:  out = multi::fft::dft({true}, in, multi::fft::forward)      one-dimensional arrays
//   VERIF_PROBE 2:  out = multi::fft::dft_backward({true, true}, in)           two-dimensional arrays
#include <boost/multi/adaptors/fft.hpp>
#include <boost/multi/adaptors/fftw.hpp>
#include <boost/multi/array.hpp>

#include <cmath>
#include <complex>
#include <iostream>

namespace multi = boost::multi;
using C = std::complex<double>;

template<class In, class Out> void dump(char const* key, In const& in, Out const& out) {
	std::cout << ",\"" << key << "\":[";
	bool first = true;
	for(auto const& e : in.elements()) { std::cout << (first ? "" : ",") << std::lround(e.real() * 256) << ',' << std::lround(e.imag() * 256); first = false; }
	for(auto const& e : out.elements()) { std::cout << ',' << std::lround(e.real() * 256) << ',' << std::lround(e.imag() * 256); }
	std::cout << "]";
}

int main() {
#if VERIF_PROBE == 1
	multi::array<C, 1> in(multi::extensions_t<1>{4});
	multi::array<C, 1> out(multi::extensions_t<1>{4}, C{-1.0, -1.0});
	char const* head = "{\"id\":-1,\"mode\":\"lazy\",\"sign\":-1,\"sh\":[4],\"which\":[1],\"icells\":[0,1,2,3],\"ocells\":[4,5,6,7],\"wild\":0";
#else
	multi::array<C, 2> in(multi::extensions_t<2>{2, 2});
	multi::array<C, 2> out(multi::extensions_t<2>{2, 2}, C{-1.0, -1.0});
	char const* head = "{\"id\":-1,\"mode\":\"lazy\",\"sign\":1,\"sh\":[2,2],\"which\":[1,1],\"icells\":[0,1,2,3],\"ocells\":[4,5,6,7],\"wild\":0";
#endif
	double k = 1.0;
	for(auto& e : in.elements()) { e = C{k, 3.0 - k * k}; k += 1.0; }
	std::cout << head;
	dump("pre", in, out);
#if VERIF_PROBE == 1
	out = multi::fft::dft({true}, in, multi::fft::forward);
#else
	out = multi::fft::dft_backward({true, true}, in);
#endif
	dump("post", in, out);
	std::cout << "}\n";
	return 0;
}
