// Replayer for property C17: real round trips through Boost.Serialization text, binary and XML archives.
// No expected values in here.
//
// input: S <id> <D> <shape..> <first..> <prior:empty|same|other> <pshape..> <pfirst..> <etype:int|double|string|nested>
//        W <id> <view program>            (view round trip: save the view, load into a view of equal extents and another layout)
#include <boost/archive/binary_iarchive.hpp>
#include <boost/archive/binary_oarchive.hpp>
#include <boost/archive/text_iarchive.hpp>
#include <boost/archive/text_oarchive.hpp>
#include <boost/archive/xml_iarchive.hpp>
#include <boost/archive/xml_oarchive.hpp>
#include <boost/serialization/nvp.hpp>
#include <boost/serialization/string.hpp>
#include <boost/serialization/array_wrapper.hpp>

#define VERIF_ELEM long
#include "viewprog.hpp"
#include <memory_resource>
#include <set>

#include <regex>

template<int D, std::size_t... K> auto xext(std::vector<long> const& sh, std::vector<long> const& fi, std::index_sequence<K...> /*u*/) { return multi::extensions_t<D>{multi::iextension(fi[K], fi[K] + sh[K])...}; }
template<int D> auto xext(std::vector<long> const& sh, std::vector<long> const& fi) { return xext<D>(sh, fi, std::make_index_sequence<D>{}); }

template<class E> E mkv(long v);
template<> long mkv<long>(long v) { return v; }
template<> double mkv<double>(long v) { return static_cast<double>(v) + 0.5; }
template<> std::string mkv<std::string>(long v) { return "s" + std::to_string(v); }
static long unv(long v) { return v; }
static long unv(double v) { return static_cast<long>(v - 0.5); }
static long unv(std::string const& v) { return v.size() > 1 ? std::stol(v.substr(1)) : -1; }

template<class A> void describe(A const& a, std::ostream& os) {
	constexpr int D = A::rank_v;
	std::vector<long> sz, fi, vals;
	{ using boost::multi::detail::get; auto s = a.sizes(); [&]<std::size_t... K>(std::index_sequence<K...>) { (sz.push_back(static_cast<long>(get<K>(s))), ...); }(std::make_index_sequence<D>{}); }
	os << "{\"sizes\":"; jlist(os, sz);
	os << ",\"ne\":" << a.num_elements();
	if(a.num_elements() > 0) {
		using boost::multi::detail::get; auto x = a.extensions();
		[&]<std::size_t... K>(std::index_sequence<K...>) { (fi.push_back(static_cast<long>(get<K>(x.base()).first())), ...); }(std::make_index_sequence<D>{});
		os << ",\"first\":"; jlist(os, fi);
		for(auto const& e : a.elements()) { vals.push_back(unv(e)); }
		os << ",\"val\":"; jlist(os, vals);
	}
	os << "}";
}

// tokens of an XML archive in document order: values of <first>, <last>, <item>/<elem> tags
static void xml_tokens(std::string const& xml, std::ostream& os) {
	std::regex re("<(first|last|item|elem)>([^<]*)</");
	os << "[";
	bool firstk = true;
	for(auto it = std::sregex_iterator(xml.begin(), xml.end(), re); it != std::sregex_iterator(); ++it) {
		std::string tag = (*it)[1], val = (*it)[2];
		long v = 0;
		if(!val.empty() && (std::isdigit(static_cast<unsigned char>(val[0])) || val[0] == '-')) { v = static_cast<long>(std::stod(val)); if(val.find('.') != std::string::npos) { v = static_cast<long>(std::stod(val) - 0.5); } }
		else { v = unv(val); }
		os << (firstk ? "" : ",") << v;
		firstk = false;
	}
	os << "]";
}

struct tracking_resource : std::pmr::memory_resource {
	std::set<void*> live; long foreign = 0;
	void* do_allocate(std::size_t bytes, std::size_t /*align*/) override { void* p = ::operator new(bytes == 0 ? 1 : bytes); live.insert(p); return p; }
	void do_deallocate(void* p, std::size_t /*bytes*/, std::size_t /*align*/) override { if(live.erase(p) == 0) { ++foreign; return; } ::operator delete(p); }
	bool do_is_equal(std::pmr::memory_resource const& o) const noexcept override { return this == &o; }
};

template<class E, int D> void array_case(long id, std::vector<long> const& sh, std::vector<long> const& fi, std::string const& prior, std::vector<long> const& psh, std::vector<long> const& pfi) {
	std::ostringstream os;
	os << "{\"id\":" << id;
	bool fin = guard::run([&] {
		multi::array<E, D> src(xext<D>(sh, fi));
		{ long k = 0; for(auto& e : src.elements()) { e = mkv<E>(1000 + (++k)); } }
		os << ",\"st\":\"ok\",\"src\":"; describe(src, os);
		auto make_target = [&] {
			if(prior == "empty") { return multi::array<E, D>{}; }
			multi::array<E, D> t(xext<D>(psh, pfi));
			long k = 0; for(auto& e : t.elements()) { e = mkv<E>((prior == "same" ? 5000 : 7000) + (++k)); }
			return t;
		};
		{   // text
			std::stringstream ss;
			{ boost::archive::text_oarchive oa(ss); oa << boost::serialization::make_nvp("arr", std::as_const(src)); }
			auto tgt = make_target();
			{ boost::archive::text_iarchive ia(ss); ia >> boost::serialization::make_nvp("arr", tgt); }
			os << ",\"text\":"; describe(tgt, os); os << ",\"text_eq\":" << ((tgt == src) ? "true" : "false");
		}
		{   // binary
			std::stringstream ss;
			{ boost::archive::binary_oarchive oa(ss); oa << boost::serialization::make_nvp("arr", std::as_const(src)); }
			auto tgt = make_target();
			{ boost::archive::binary_iarchive ia(ss); ia >> boost::serialization::make_nvp("arr", tgt); }
			os << ",\"binary\":"; describe(tgt, os); os << ",\"binary_eq\":" << ((tgt == src) ? "true" : "false");
		}
		{   // xml
			std::stringstream ss;
			{ boost::archive::xml_oarchive oa(ss); oa << boost::serialization::make_nvp("arr", std::as_const(src)); }
			os << ",\"xml_tokens\":"; xml_tokens(ss.str(), os);
			auto tgt = make_target();
			{ boost::archive::xml_iarchive ia(ss); ia >> boost::serialization::make_nvp("arr", tgt); }
			os << ",\"xml\":"; describe(tgt, os); os << ",\"xml_eq\":" << ((tgt == src) ? "true" : "false");
		}
		{   // the same load (text archive) into an array on its OWN memory resource: afterwards the array still names that resource and
			// holds a block made by it, and every block went back to the resource it came from (relations between observations)
			tracking_resource mine, dflt;
			auto* old_default = std::pmr::set_default_resource(&dflt);
			bool named = false, owned = false;
			{
				std::stringstream ss;
				{ boost::archive::text_oarchive oa(ss); oa << boost::serialization::make_nvp("arr", std::as_const(src)); }
				multi::pmr::array<E, D> tgt(&mine);
				if(prior != "empty") { tgt.reextent(xext<D>(psh, pfi)); long k = 0; for(auto& e : tgt.elements()) { e = mkv<E>(7000 + (++k)); } }
				{ boost::archive::text_iarchive ia(ss); ia >> boost::serialization::make_nvp("arr", tgt); }
				named = tgt.get_allocator().resource() == &mine;
				owned = tgt.num_elements() == 0 || mine.live.count(static_cast<void*>(tgt.data_elements())) == 1;
				os << ",\"pmr_eq\":" << ((tgt == src) ? "true" : "false");
			}
			std::pmr::set_default_resource(old_default);
			os << ",\"pmr_names_its_resource\":" << (named ? "true" : "false") << ",\"pmr_block_from_its_resource\":" << (owned ? "true" : "false")
			   << ",\"pmr_foreign_deallocations\":" << (mine.foreign + dflt.foreign) << ",\"pmr_left_allocated\":" << (mine.live.size() + dflt.live.size());
		}
	});
	if(!fin) { os << ",\"st\":\"abort\",\"abort\":" << guard::last_json(); }
	os << "}\n";
	std::cout << os.str() << std::flush;
}

template<class O, class I> struct ar_pair { using oa = O; using ia = I; };

// view round trip: the view of the root is saved; loaded into (a) a fresh array's whole view, (b) a view with rotated memory layout inside a guarded buffer
template<int RD, int D> void view_case(multi::array<long, RD>& /*root*/, view_t<D>& v, std::ostream& os) {
	std::vector<long> sh;
	{ using boost::multi::detail::get; auto s = v.sizes(); [&]<std::size_t... K>(std::index_sequence<K...>) { (sh.push_back(static_cast<long>(get<K>(s))), ...); }(std::make_index_sequence<D>{}); }
	std::vector<long> zero(sh.size(), 0);
	auto roundtrip = [&](auto tag, char const* name) {
		using OA = typename decltype(tag)::oa; using IA = typename decltype(tag)::ia;
		std::stringstream ss;
		{ OA oa(ss); oa << boost::serialization::make_nvp("view", std::as_const(v)); }
		std::string text = ss.str();
		// (a) into the whole view of a fresh array
		multi::array<long, D> fresh(xext<D>(sh, zero), -1L);
		{ IA ia(ss); auto&& fv = fresh(); ia >> boost::serialization::make_nvp("view", fv); }
		std::vector<long> got; for(auto const& e : fresh.elements()) { got.push_back(e); }
		os << ",\"" << name << "_fresh\":"; jlist(os, got);
		// (c) saved as a genuinely read-only view (const_subarray, what a view of a const array is), loaded as in (a)
		{
			using cview_t = multi::const_subarray<long, D, typename view_t<D>::element_ptr, typename view_t<D>::layout_type>;
			cview_t const& cv = v;
			std::stringstream ss3;
			{ OA oa(ss3); oa << boost::serialization::make_nvp("view", cv); }
			multi::array<long, D> fresh3(xext<D>(sh, zero), -1L);
			{ IA ia(ss3); auto&& fv = fresh3(); ia >> boost::serialization::make_nvp("view", fv); }
			std::vector<long> got3; for(auto const& e : fresh3.elements()) { got3.push_back(e); }
			os << ",\"" << name << "_cfresh\":"; jlist(os, got3);
		}
		// (b) into a view with rotated memory layout
		std::vector<long> ush(sh);
		if(D > 1) { ush.insert(ush.begin(), ush.back()); ush.pop_back(); } else { ush[0] *= 2; }
		multi::array<long, D> backing(xext<D>(ush, zero), -7L);
		std::stringstream ss2(text);
		{
			IA ia(ss2);
			if constexpr(D > 1) { auto&& rv = backing.rotated(); ia >> boost::serialization::make_nvp("view", rv); std::vector<long> g2; for(auto const& e : rv.elements()) { g2.push_back(e); } os << ",\"" << name << "_rot\":"; jlist(os, g2); }
			else { auto&& rv = backing.strided(2); ia >> boost::serialization::make_nvp("view", rv); std::vector<long> g2; for(auto const& e : rv.elements()) { g2.push_back(e); } os << ",\"" << name << "_rot\":"; jlist(os, g2);
				long untouched = 0; for(long k = 1; k < static_cast<long>(backing.num_elements()); k += 2) { if(backing.elements()[k] == -7L) { ++untouched; } } os << ",\"" << name << "_rot_frame\":" << (untouched == static_cast<long>(backing.num_elements()) / 2 ? "true" : "false"); }
		}
		if(std::string(name) == "xml") { os << ",\"xml_tokens\":"; xml_tokens(text, os); }
	};
	roundtrip(ar_pair<boost::archive::text_oarchive, boost::archive::text_iarchive>{}, "text");
	roundtrip(ar_pair<boost::archive::binary_oarchive, boost::archive::binary_iarchive>{}, "binary");
	roundtrip(ar_pair<boost::archive::xml_oarchive, boost::archive::xml_iarchive>{}, "xml");
}

template<int D> void run_view(long id, view_program const& p) {
	multi::array<long, D> root(make_ext<D>(p.sizes, p.firsts, std::make_index_sequence<D>{}));
	{ long c = 0; for(auto& e : root.elements()) { e = 1000 + (c++); } }
	g_root = root.data_elements();
	any_view cur; put<D>(cur, norm(root()));
	std::ostringstream os;
	os << "{\"id\":" << id;
	std::string status;
	run_ops(cur, p.ops, status);
	if(status != "ok") { os << ",\"st\":\"" << (status == "abort" ? "abort" : "unsupported") << "\""; if(status == "abort") { os << ",\"abort\":" << guard::last_json(); } }
	else {
		std::ostringstream body; std::string why; bool fin = true;
		try {
			fin = guard::run([&] {
				std::visit([&](auto& v) {
					using V = std::decay_t<decltype(v)>;
					if constexpr(std::is_same_v<V, std::monostate> || std::is_same_v<V, elem0>) { throw unsupported{"element"}; }
					else { view_case<D, V::rank_v>(root, v, body); }
				}, cur);
			});
		} catch(unsupported const& u) { why = u.why; }
		catch(std::exception const& e) { os << ",\"st\":\"exception\",\"what\":\"" << guard::jesc(e.what()) << "\",\"partial\":{\"x\":0" << body.str() << "}"; why = "-"; }
		if(why == "-") {}
		else if(!why.empty()) { os << ",\"st\":\"unsupported\",\"why\":\"" << why << "\""; }
		else if(!fin) { os << ",\"st\":\"abort\",\"abort\":" << guard::last_json(); }
		else { os << ",\"st\":\"ok\"" << body.str(); std::vector<long> rootv; for(auto const& e : root.elements()) { rootv.push_back(e); } os << ",\"root\":"; jlist(os, rootv); }
	}
	os << "}\n";
	std::cout << os.str() << std::flush;
}

template<class E> void dispatch_array(long id, int D, std::vector<long> const& sh, std::vector<long> const& fi, std::string const& prior, std::vector<long> const& psh, std::vector<long> const& pfi) {
	switch(D) {
		case 1: array_case<E, 1>(id, sh, fi, prior, psh, pfi); break;
		case 2: array_case<E, 2>(id, sh, fi, prior, psh, pfi); break;
		case 3: array_case<E, 3>(id, sh, fi, prior, psh, pfi); break;
		case 4: array_case<E, 4>(id, sh, fi, prior, psh, pfi); break;
		default: std::cout << "{\"id\":" << id << ",\"st\":\"unsupported\"}\n";
	}
}

int main() {
	guard::install();
	std::ios::sync_with_stdio(false);
	std::string line;
	while(std::getline(std::cin, line)) {
		if(line.empty()) { continue; }
		std::istringstream is(line);
		std::string tag; long id = 0;
		is >> tag >> id;
		guard::context() = id;
		if(tag == "S") {
			int D = 0; is >> D;
			std::vector<long> sh(static_cast<std::size_t>(D)), fi(sh.size()), psh(sh.size()), pfi(sh.size());
			for(auto& x : sh) { is >> x; } for(auto& x : fi) { is >> x; }
			std::string prior, etype; is >> prior;
			for(auto& x : psh) { is >> x; } for(auto& x : pfi) { is >> x; }
			is >> etype;
			try {
				if(etype == "int") { dispatch_array<long>(id, D, sh, fi, prior, psh, pfi); }
				else if(etype == "double") { dispatch_array<double>(id, D, sh, fi, prior, psh, pfi); }
				else { dispatch_array<std::string>(id, D, sh, fi, prior, psh, pfi); }
			} catch(std::exception const& e) { std::cout << "{\"id\":" << id << ",\"st\":\"exception\",\"what\":\"" << guard::jesc(e.what()) << "\"}\n" << std::flush; }
		} else if(tag == "W") {
			view_program p = parse_view_program(is);
			switch(p.D) {
				case 1: run_view<1>(id, p); break;
				case 2: run_view<2>(id, p); break;
				case 3: run_view<3>(id, p); break;
				default: std::cout << "{\"id\":" << id << ",\"st\":\"unsupported\"}\n";
			}
		}
	}
	return 0;
}
