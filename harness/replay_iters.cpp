// Replayer for iterator programs (property C02): builds a view by a view program, then runs
// an iterator program over two registers (begin()/end() iterators, or elements() iterators)
// and prints what the real iterators observe.  No expected values in here.
//
// input line: I <id> <view program> <kind:outer|elems> <p1> <p2> <nops> { <op> <r> <s> <n> }
//   p1 p2: the positions the generator intends (used only to choose which offsets to probe
//   with it[n], and whether to dereference -- never compared here)
#include "viewprog.hpp"

#include <optional>

struct iop_t { std::string op; int r = 0, s = 0; long n = 0; };

template<class V> void cells_of(V const& v, std::vector<long>& out) {
	if constexpr(std::is_arithmetic_v<std::decay_t<V>>) { out.push_back(cellno(v)); }
	else {
		constexpr int D = std::decay_t<V>::rank_v;
		for(auto i : v.extension()) {
			if constexpr(D == 1) { out.push_back(cellno(v[i])); } else { cells_of(v[i], out); }
		}
	}
}

template<class It, class Range>
void run_iter_program(Range&& rng, std::vector<iop_t> const& prog, long p1, long p2, std::ostream& os) {
	std::optional<It> reg[2];
	bool ok = guard::run([&] {
		reg[0].emplace(rng.begin());
		reg[1].emplace(rng.begin());
	});
	if(!ok) { os << ",\"st\":\"abort\",\"at\":\"begin\",\"abort\":" << guard::last_json(); return; }
	std::size_t done = 0;
	for(auto const& o : prog) {
		auto r = static_cast<std::size_t>(o.r - 1);
		auto s = o.s > 0 ? static_cast<std::size_t>(o.s - 1) : 0;
		ok = guard::run([&] {
			It& x = *reg[r];
			if(o.op == "begin")        { x = rng.begin(); }
			else if(o.op == "end")     { x = rng.end(); }
			else if(o.op == "inc")     { ++x; }
			else if(o.op == "dec")     { --x; }
			else if(o.op == "postinc") { It old = x++; (void)old; }
			else if(o.op == "postdec") { It old = x--; (void)old; }
			else if(o.op == "addeq")   { x += o.n; }
			else if(o.op == "subeq")   { x -= o.n; }
			else if(o.op == "plus")    { x = *reg[s] + o.n; }
			else if(o.op == "minus")   { x = *reg[s] - o.n; }
			else if(o.op == "assign")  { x = *reg[s]; }
			else if(o.op == "copy")    { It tmp(*reg[s]); reg[r].reset(); reg[r].emplace(tmp); }
		});
		if(!ok) { os << ",\"st\":\"abort\",\"at\":" << done << ",\"abort\":" << guard::last_json(); return; }
		++done;
	}
	os << ",\"st\":\"ok\"";
	long N = -1;
	auto field = [&](char const* name, auto&& body) {
		std::ostringstream tmp;
		bool fin = guard::run([&] { body(tmp); });
		os << ",\"" << name << "\":";
		if(fin) { os << tmp.str(); } else { os << "{\"abort\":" << guard::last_json() << "}"; }
	};
	field("n", [&](auto& t) { N = static_cast<long>(rng.end() - rng.begin()); t << N; });
	field("pos", [&](auto& t) { t << '[' << static_cast<long>(*reg[0] - rng.begin()) << ',' << static_cast<long>(*reg[1] - rng.begin()) << ']'; });
	field("rem", [&](auto& t) { t << '[' << static_cast<long>(rng.end() - *reg[0]) << ',' << static_cast<long>(rng.end() - *reg[1]) << ']'; });
	field("diff", [&](auto& t) { t << static_cast<long>(*reg[0] - *reg[1]); });
	field("cmp", [&](auto& t) {
		It const& a = *reg[0]; It const& b = *reg[1];
		t << '[' << (a == b) << ',' << (a != b) << ',' << static_cast<bool>(a < b) << ',' << static_cast<bool>(a <= b) << ',' << static_cast<bool>(a > b) << ',' << static_cast<bool>(a >= b) << ']';
	});
	field("cmp_ends", [&](auto& t) {  // relation of each register to begin and end
		t << '[';
		for(int k = 0; k != 2; ++k) { It const& a = *reg[k]; It b0 = rng.begin(); It e0 = rng.end(); t << (k ? "," : "") << (a == b0) << ',' << (a == e0) << ',' << static_cast<bool>(b0 < a) << ',' << static_cast<bool>(a < e0); }
		t << ']';
	});
	long ps[2] = {p1, p2};
	for(int k = 0; k != 2; ++k) {
		field(k == 0 ? "item1" : "item2", [&](auto& t) {
			std::vector<long> c;
			if(ps[k] < N) { cells_of(**reg[k], c); }
			jlist(t, c);
		});
	}
	// it[n] for every n that stays inside the range, from register 1
	field("firsts", [&](auto& t) {
		std::vector<long> f;
		for(long q = 0; q < N; ++q) {
			std::vector<long> c;
			cells_of((*reg[0])[q - p1], c);
			f.push_back(c.empty() ? -1 : c.front());
		}
		jlist(t, f);
	});
	// a copy and a const iterator to the same position
	field("copy_eq", [&](auto& t) { It c(*reg[0]); t << ((c == *reg[0]) ? 1 : 0) << ""; });
}

template<int D> void observe_iters(view_t<D>& v, std::string const& kind, std::vector<iop_t> const& prog, long p1, long p2, std::ostream& os) {
	if(kind == "outer") {
		using It = typename view_t<D>::iterator;
		run_iter_program<It>(v, prog, p1, p2, os);
		// const and mutable iterators to one position compare equal
		bool fin = guard::run([&] {
			typename view_t<D>::const_iterator c = v.begin() + p1;
			typename view_t<D>::iterator m = v.begin() + p1;
			os << ",\"const_eq\":" << ((c == m) ? 1 : 0);
		});
		if(!fin) { os << ",\"const_eq\":{\"abort\":" << guard::last_json() << "}"; }
	} else {
		auto&& es = v.elements();
		using It = std::decay_t<decltype(es.begin())>;
		run_iter_program<It>(es, prog, p1, p2, os);
		bool fin = guard::run([&] {
			auto const& ces = es;
			auto c = ces.begin() + p1;  // const_iterator
			os << ",\"const_eq\":" << ((c - ces.begin()) == p1 ? 1 : 0);
			long ne = static_cast<long>(es.size());
			if(ne > 0) { os << ",\"front\":" << cellno(es.front()) << ",\"back\":" << cellno(es.back()) << ",\"at_p1\":" << (p1 < ne ? cellno(es[p1]) : -1); }
		});
		if(!fin) { os << ",\"const_eq\":{\"abort\":" << guard::last_json() << "}"; }
	}
}

template<int D> void run_case(long id, view_program const& p, std::string const& kind, std::vector<iop_t> const& prog, long p1, long p2) {
	multi::array<T, D, verif_alloc<T>> root(make_ext<D>(p.sizes, p.firsts, std::make_index_sequence<D>{}));
	{ T k = 0; for(auto& e : root.elements()) { e = k++; } }
	{ using vptr::raw; g_root = raw(root.data_elements()); }
	vptr::events().reset();
	any_view cur;
	put<D>(cur, norm(root()));
	std::ostringstream os;
	os << "{\"id\":" << id;
	std::string status;
	std::size_t done = run_ops(cur, p.ops, status);
	if(status == "abort") { os << ",\"st\":\"abort\",\"at\":\"view" << done << "\",\"abort\":" << guard::last_json(); }
	else if(status != "ok") { os << ",\"st\":\"unsupported\",\"why\":\"" << status << "\""; }
	else {
		std::visit([&](auto& v) {
			using V = std::decay_t<decltype(v)>;
			if constexpr(std::is_same_v<V, std::monostate> || std::is_same_v<V, elem0>) { os << ",\"st\":\"unsupported\",\"why\":\"element\""; }
			else { observe_iters<V::rank_v>(v, kind, prog, p1, p2, os); }
		}, cur);
	}
#if VERIF_PTR_KIND == 2
	os << ",\"ptr_events\":" << vptr::events().total();
#endif
	os << "}\n";
	std::cout << os.str() << std::flush;
}

int main() {
	guard::install();
	std::ios::sync_with_stdio(false);
	std::string line;
	while(std::getline(std::cin, line)) {
		if(line.empty() || line[0] != 'I') { continue; }
		std::istringstream is(line);
		std::string tag, kind; long id = 0, p1 = 0, p2 = 0;
		is >> tag >> id;
		view_program p = parse_view_program(is);
		std::size_t nops = 0;
		is >> kind >> p1 >> p2 >> nops;
		std::vector<iop_t> prog(nops);
		for(auto& o : prog) { is >> o.op >> o.r >> o.s >> o.n; }
		guard::context() = id;
		switch(p.D) {
			case 1: run_case<1>(id, p, kind, prog, p1, p2); break;
			case 2: run_case<2>(id, p, kind, prog, p1, p2); break;
			case 3: run_case<3>(id, p, kind, prog, p1, p2); break;
			case 4: run_case<4>(id, p, kind, prog, p1, p2); break;
			default: std::cout << "{\"id\":" << id << ",\"st\":\"unsupported\",\"why\":\"root D\"}\n";
		}
	}
	return 0;
}
