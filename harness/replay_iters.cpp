// Replayer for iterator programs (property C02): builds a view by a view program, then runs
// an iterator program over two registers (begin()/end() iterators, or elements() iterators)
// and prints what the real iterators observe.  No expected values in here.
//
// input line: I <id> <view program> <kind:outer|elems> <p1> <p2> <nops> { <op> <r> <s> <n> } T <has twin:0|1> <g1> <g2> [<op> <nargs> <args>]
//   twin: a second view of the same dimensionality derived from the view by one operation; g1 g2: which range (0 view, 1 twin)
//   each register points into at the end (as the generator intends; used to choose what to observe against)
//   p1 p2: the positions the generator intends (used only to choose which offsets to probe
//   with it[n], and whether to dereference -- never compared here)
#include "viewprog.hpp"

#include <optional>

struct iop_t { std::string op; int r = 0, s = 0; long n = 0; };

template<class V> void cells_of(V const& v, std::vector<long>& out) {
	if constexpr(std::is_arithmetic_v<std::decay_t<V>>) { out.push_back(cellno(v)); }
	else {
		constexpr int D = std::decay_t<V>::rank_v;
		for(auto i : v.extension()) {
			if constexpr(D == 1) { out.push_back(cellno(v[i])); } else { cells_of(v[i], out); }
		}
	}
}

struct twin_req { bool has = false; op_t op; long g1 = 0, g2 = 0; };

// CIt: the const_iterator type of the range.  main/twin: the view's range and its twin's (equal C++ type).
template<class It, class CIt, class Range>
void run_iter_program(Range&& rng, Range&& twin, std::vector<iop_t> const& prog, long p1, long p2, long g1, long g2, std::ostream& os) {
	std::optional<It> reg[2];
	bool ok = guard::run([&] {
		reg[0].emplace(rng.begin());
		reg[1].emplace(rng.begin());
	});
	if(!ok) { os << ",\"st\":\"abort\",\"at\":\"begin\",\"abort\":" << guard::last_json(); return; }
	std::size_t done = 0;
	for(auto const& o : prog) {
		auto r = static_cast<std::size_t>(o.r - 1);
		auto s = o.s > 0 ? static_cast<std::size_t>(o.s - 1) : 0;
		ok = guard::run([&] {
			It& x = *reg[r];
			if(o.op == "begin")        { x = rng.begin(); }
			else if(o.op == "end")     { x = rng.end(); }
			else if(o.op == "tbegin")  { x = twin.begin(); }
			else if(o.op == "tend")    { x = twin.end(); }
			else if(o.op == "inc")     { ++x; }
			else if(o.op == "dec")     { --x; }
			else if(o.op == "postinc") { It old = x++; (void)old; }
			else if(o.op == "postdec") { It old = x--; (void)old; }
			else if(o.op == "addeq")   { x += o.n; }
			else if(o.op == "subeq")   { x -= o.n; }
			else if(o.op == "plus")    { x = *reg[s] + o.n; }
			else if(o.op == "minus")   { x = *reg[s] - o.n; }
			else if(o.op == "assign")  { x = *reg[s]; }
			else if(o.op == "copy")    { It tmp(*reg[s]); reg[r].reset(); reg[r].emplace(tmp); }
		});
		if(!ok) { os << ",\"st\":\"abort\",\"at\":" << done << ",\"abort\":" << guard::last_json(); return; }
		++done;
	}
	os << ",\"st\":\"ok\"";
	auto field = [&](char const* name, auto&& body) {
		std::ostringstream tmp;
		bool fin = guard::run([&] { body(tmp); });
		os << ",\"" << name << "\":";
		if(fin) { os << tmp.str(); } else { os << "{\"abort\":" << guard::last_json() << "}"; }
	};
	// each register is observed against the range it points into
	std::decay_t<Range>* R[2] = {std::addressof(g1 == 0 ? rng : twin), std::addressof(g2 == 0 ? rng : twin)};
	long N = -1, NS[2] = {-1, -1};
	field("n", [&](auto& t) { N = static_cast<long>(rng.end() - rng.begin()); t << N; });
	field("ns", [&](auto& t) { for(int k = 0; k != 2; ++k) { NS[k] = static_cast<long>(R[k]->end() - R[k]->begin()); } t << '[' << NS[0] << ',' << NS[1] << ']'; });
	field("pos", [&](auto& t) { t << '[' << static_cast<long>(*reg[0] - R[0]->begin()) << ',' << static_cast<long>(*reg[1] - R[1]->begin()) << ']'; });
	field("rem", [&](auto& t) { t << '[' << static_cast<long>(R[0]->end() - *reg[0]) << ',' << static_cast<long>(R[1]->end() - *reg[1]) << ']'; });
	if(g1 == g2) {
		field("diff", [&](auto& t) { t << static_cast<long>(*reg[0] - *reg[1]); });
		field("cmp", [&](auto& t) {
			It const& a = *reg[0]; It const& b = *reg[1];
			t << '[' << (a == b) << ',' << (a != b) << ',' << static_cast<bool>(a < b) << ',' << static_cast<bool>(a <= b) << ',' << static_cast<bool>(a > b) << ',' << static_cast<bool>(a >= b) << ']';
		});
	}
	field("cmp_ends", [&](auto& t) {  // relation of each register to begin and end
		t << '[';
		for(int k = 0; k != 2; ++k) { It const& a = *reg[k]; It b0 = R[k]->begin(); It e0 = R[k]->end(); t << (k ? "," : "") << (a == b0) << ',' << (a == e0) << ',' << static_cast<bool>(b0 < a) << ',' << static_cast<bool>(a < e0); }
		t << ']';
	});
	long ps[2] = {p1, p2};
	for(int k = 0; k != 2; ++k) {
		field(k == 0 ? "item1" : "item2", [&](auto& t) {
			std::vector<long> c;
			if(ps[k] < NS[k]) { cells_of(**reg[k], c); }
			jlist(t, c);
		});
		// it[n] for every n that stays inside the range
		field(k == 0 ? "firsts1" : "firsts2", [&](auto& t) {
			std::vector<long> f;
			for(long q = 0; q < NS[k]; ++q) {
				std::vector<long> c;
				cells_of((*reg[k])[q - ps[k]], c);
				f.push_back(c.empty() ? -1 : c.front());
			}
			jlist(t, f);
		});
		// the const_iterator obtained by CONVERTING the register: what it designates, and its neighbours by ++ / --
		field(k == 0 ? "conv1" : "conv2", [&](auto& t) {
			CIt c = *reg[k];
			std::vector<long> item, nx, pv;
			if(ps[k] < NS[k]) { cells_of(*c, item); }
			if(ps[k] + 1 < NS[k]) { CIt d = *reg[k]; ++d; std::vector<long> cc; cells_of(*d, cc); nx.push_back(cc.empty() ? -1 : cc.front()); }
			if(ps[k] > 0 && NS[k] > 0) { CIt d = *reg[k]; --d; std::vector<long> cc; cells_of(*d, cc); pv.push_back(cc.empty() ? -1 : cc.front()); }
			CIt b = R[k]->begin();
			t << "{\"item\":"; jlist(t, item); t << ",\"next\":"; jlist(t, nx); t << ",\"prev\":"; jlist(t, pv);
			t << ",\"pos\":" << static_cast<long>(c - b) << ",\"eq\":" << ((c == *reg[k]) ? 1 : 0) << "}";
		});
	}
	field("copy_eq", [&](auto& t) { It c(*reg[0]); t << ((c == *reg[0]) ? 1 : 0) << ""; });
}

template<int D> void observe_iters(view_t<D>& v, view_t<D>& tw, twin_req const& q, std::string const& kind, std::vector<iop_t> const& prog, long p1, long p2, std::ostream& os) {
	if(kind == "outer") {
		using It = typename view_t<D>::iterator;
		using CIt = typename view_t<D>::const_iterator;
		run_iter_program<It, CIt>(v, tw, prog, p1, p2, q.g1, q.g2, os);
		// const and mutable iterators to one position compare equal
		bool fin = guard::run([&] {
			typename view_t<D>::const_iterator c = v.begin() + (q.g1 == 0 ? p1 : 0);
			typename view_t<D>::iterator m = v.begin() + (q.g1 == 0 ? p1 : 0);
			os << ",\"const_eq\":" << ((c == m) ? 1 : 0);
			os << ",\"size\":" << static_cast<long>(v.size()) << ",\"end_minus_begin\":" << static_cast<long>(v.end() - v.begin());   // the library's own size()
		});
		if(!fin) { os << ",\"const_eq\":{\"abort\":" << guard::last_json() << "}"; }
	} else {
		auto&& es = v.elements();
		auto&& tes = tw.elements();
		using It = std::decay_t<decltype(es.begin())>;
		using CIt = std::decay_t<decltype(std::as_const(es).begin())>;
		static_assert(!std::is_same_v<It, CIt>, "elements() of a mutable view must have a distinct const_iterator");
		run_iter_program<It, CIt>(es, tes, prog, p1, p2, q.g1, q.g2, os);
		bool fin = guard::run([&] {
			auto const& ces = es;
			long pp = (q.g1 == 0 ? p1 : 0);
			auto c = ces.begin() + pp;  // const_iterator
			os << ",\"const_eq\":" << ((c - ces.begin()) == pp ? 1 : 0);
			long ne = static_cast<long>(es.size());
			if(ne > 0) { os << ",\"front\":" << cellno(es.front()) << ",\"back\":" << cellno(es.back()) << ",\"at_p1\":" << (pp < ne ? cellno(es[pp]) : -1);
				std::vector<long> all; for(long k = 0; k != ne; ++k) { all.push_back(cellno(es[k])); } os << ",\"at_all\":"; jlist(os, all); }   // elements()[k] for every k
		});
		if(!fin) { os << ",\"const_eq\":{\"abort\":" << guard::last_json() << "}"; }
	}
}

template<int D> void run_case(long id, view_program const& p, std::string const& kind, std::vector<iop_t> const& prog, long p1, long p2, twin_req const& q) {
	multi::array<T, D, verif_alloc<T>> root(make_ext<D>(p.sizes, p.firsts, std::make_index_sequence<D>{}));
	{ T k = 0; for(auto& e : root.elements()) { e = k++; } }
	{ using vptr::raw; g_root = raw(root.data_elements()); }
	vptr::events().reset();
	any_view cur;
	put<D>(cur, norm(root()));
	std::ostringstream os;
	os << "{\"id\":" << id;
	std::string status;
	std::size_t done = run_ops(cur, p.ops, status);
	if(status == "abort") { os << ",\"st\":\"abort\",\"at\":\"view" << done << "\",\"abort\":" << guard::last_json(); }
	else if(status != "ok") { os << ",\"st\":\"unsupported\",\"why\":\"" << status << "\""; }
	else {
		std::visit([&](auto& v) {
			using V = std::decay_t<decltype(v)>;
			if constexpr(std::is_same_v<V, std::monostate> || std::is_same_v<V, elem0>) { os << ",\"st\":\"unsupported\",\"why\":\"element\""; }
			else {
				constexpr int DV = V::rank_v;
				if(!q.has) { observe_iters<DV>(v, v, q, kind, prog, p1, p2, os); }
				else {
					any_view tw;
					bool fin = true; std::string why;
					try { fin = guard::run([&] { apply_op<DV>(v, q.op, tw); }); } catch(unsupported const& u) { why = u.why; }
					if(!why.empty()) { os << ",\"st\":\"unsupported\",\"why\":\"twin: " << why << "\""; }
					else if(!fin) { os << ",\"st\":\"abort\",\"at\":\"twin\",\"abort\":" << guard::last_json(); }
					else if(auto* t = std::get_if<view_t<DV>>(&tw)) { observe_iters<DV>(v, *t, q, kind, prog, p1, p2, os); }
					else { os << ",\"st\":\"unsupported\",\"why\":\"twin of another dimensionality\""; }
				}
			}
		}, cur);
	}
#if VERIF_PTR_KIND == 2
	os << ",\"ptr_events\":" << vptr::events().total();
#endif
	os << "}\n";
	std::cout << os.str() << std::flush;
}

int main() {
	guard::install();
	std::ios::sync_with_stdio(false);
	std::string line;
	while(std::getline(std::cin, line)) {
		if(line.empty() || line[0] != 'I') { continue; }
		std::istringstream is(line);
		std::string tag, kind; long id = 0, p1 = 0, p2 = 0;
		is >> tag >> id;
		view_program p = parse_view_program(is);
		std::size_t nops = 0;
		is >> kind >> p1 >> p2 >> nops;
		std::vector<iop_t> prog(nops);
		for(auto& o : prog) { is >> o.op >> o.r >> o.s >> o.n; }
		twin_req q; std::string ttag; int has = 0;
		if(is >> ttag >> has >> q.g1 >> q.g2) { q.has = has != 0; if(q.has) { std::size_t na = 0; is >> q.op.name >> na; q.op.a.resize(na); for(auto& x : q.op.a) { is >> x; } } }
		guard::context() = id;
		switch(p.D) {
			case 1: run_case<1>(id, p, kind, prog, p1, p2, q); break;
			case 2: run_case<2>(id, p, kind, prog, p1, p2, q); break;
			case 3: run_case<3>(id, p, kind, prog, p1, p2, q); break;
			case 4: run_case<4>(id, p, kind, prog, p1, p2, q); break;
			default: std::cout << "{\"id\":" << id << ",\"st\":\"unsupported\",\"why\":\"root D\"}\n";
		}
	}
	return 0;
}
