// Replayer for property C05: builds a destination view by a view program over a root that is an
// array_ref into a guarded buffer, performs ONE assignment-like operation from a source of the
// view's extents, and prints the whole buffer afterwards.  No expected values in here.
//
// input: A <id> <view program> <kind>
// output: {"id":..,"st":"ok","store":[root cells],"guards_ok":true,"src":[source in canonical order],"sink":[..]}
#ifdef VERIF_TRACKED_ELEM
#include "tracked.hpp"
#define VERIF_ELEM verif::tracked
#else
#define VERIF_ELEM long
#endif
#include "viewprog.hpp"

#include <algorithm>
#include <memory>

// "never ... reallocates anything": allocations from the global heap are counted while an assignment through a view runs
// (plain elements only: the tracked element's event log itself allocates)
static bool g_news_armed = false;
static long g_news = 0;
#ifndef VERIF_TRACKED_ELEM
#include <cstdlib>
#include <new>
void* operator new(std::size_t n) { if(g_news_armed) { ++g_news; } void* p = std::malloc(n == 0 ? 1 : n); if(p == nullptr) { throw std::bad_alloc{}; } return p; }
void* operator new[](std::size_t n) { return ::operator new(n); }
void operator delete(void* p) noexcept { std::free(p); }
void operator delete[](void* p) noexcept { std::free(p); }
void operator delete(void* p, std::size_t /*n*/) noexcept { std::free(p); }
void operator delete[](void* p, std::size_t /*n*/) noexcept { std::free(p); }
#endif
struct news_guard { news_guard() { g_news_armed = true; } ~news_guard() { g_news_armed = false; } news_guard(news_guard const&) = delete; auto operator=(news_guard const&) -> news_guard& = delete; };
#define NO_NEWS(...) do { news_guard ng_; __VA_ARGS__; } while(false)

constexpr long GUARD = 8;
constexpr long SENT = -555;

static T mk(long v) {
#ifdef VERIF_TRACKED_ELEM
	return T(static_cast<int>(v));
#else
	return v;
#endif
}
static long val_of(T const& e) {
#ifdef VERIF_TRACKED_ELEM
	return e.value();
#else
	return e;
#endif
}

template<int D, std::size_t... K> auto zext(std::vector<long> const& sh, std::index_sequence<K...> /*u*/) { return multi::extensions_t<D>{multi::iextension(0, sh[K])...}; }
template<int D> auto zext(std::vector<long> const& sh) { return zext<D>(sh, std::make_index_sequence<D>{}); }

template<class V> void fill_canon(V&& v, long base, long& k) {
	constexpr int DD = std::decay_t<V>::rank_v;
	for(auto i : v.extension()) {
		if constexpr(DD == 1) { v[i] = static_cast<typename std::decay_t<V>::element_type>(mk(base + (++k))); } else { fill_canon(v[i], base, k); }
	}
}
template<class V> void read_canon(V const& v, std::vector<long>& out) {
	constexpr int DD = std::decay_t<V>::rank_v;
	for(auto i : v.extension()) {
		if constexpr(DD == 1) { out.push_back(val_of(v[i])); } else { read_canon(v[i], out); }
	}
}
template<int D, class Tup, std::size_t... K> void szv(Tup const& t, std::vector<long>& out, std::index_sequence<K...> /*u*/) {
	using boost::multi::detail::get;
	(out.push_back(static_cast<long>(get<K>(t))), ...);
}

// detection: is `dst = src` well-formed?
template<class Dst, class Src, class = void> struct can_assign : std::false_type {};
template<class Dst, class Src> struct can_assign<Dst, Src, std::void_t<decltype(std::declval<Dst&>() = std::declval<Src>())>> : std::true_type {};

template<std::size_t... I> void assign_il1(view_t<1>& dv, std::vector<T> const& v, std::index_sequence<I...> /*u*/) { dv = {v[I]...}; }

template<int D> void do_op(view_t<D>& dv, view_t<D>* twin, std::string const& kind, std::ostream& os) {
	std::vector<long> sh;
	szv<D>(dv.sizes(), sh, std::make_index_sequence<D>{});
	long ne = static_cast<long>(dv.num_elements());
	multi::array<T, D> src(zext<D>(sh), mk(0));
	{ long k = 0; fill_canon(src(), 1000, k); }
	std::vector<long> src_after, sink;
	bool have_src = false;
	auto rotview = [&](multi::array<T, D>& backing) {
		std::vector<long> ush(sh);
		if(D > 1) { ush.insert(ush.begin(), ush.back()); ush.pop_back(); } else { ush[0] *= 2; }
		backing = multi::array<T, D>(zext<D>(ush), mk(-7));
		if constexpr(D > 1) { return norm(backing.rotated()); } else { return norm(backing.strided(2)); }
	};
	if(kind == "assign_array") { NO_NEWS(dv = src); }
	else if(kind == "assign_constview") { auto const& cs = src; NO_NEWS(dv = cs()); }
	else if(kind == "assign_rotview") {
		multi::array<T, D> backing; auto sv = rotview(backing);
		{ long k = 0; fill_canon(sv, 1000, k); }
		NO_NEWS(dv = sv);
		read_canon(sv, src_after); have_src = true;
	}
	else if(kind == "assign_rdest_rotview" || kind == "assign_rdest_rvalue_rotview" || kind == "assign_rdest_array") {
		// the DESTINATION view is a temporary (A[i] = ..., A.rotated()[j] = ...): the &&-qualified assignment operators
		multi::array<T, D> backing; auto sv = rotview(backing);
		{ long k = 0; fill_canon(sv, 1000, k); }
		if(kind == "assign_rdest_array") { NO_NEWS(std::move(dv) = src); }
		else if(kind == "assign_rdest_rotview") { NO_NEWS(std::move(dv) = sv); read_canon(sv, src_after); have_src = true; }
		else { NO_NEWS(std::move(dv) = std::move(sv)); read_canon(sv, src_after); have_src = true; }
	}
	else if(kind == "assign_padview") {
		std::vector<long> psh(sh); for(auto& s : psh) { s += 2; }
		multi::array<T, D> backing(zext<D>(psh), mk(-9));
		op_t o; o.name = "paren"; for(auto s : sh) { o.a.push_back(1); o.a.push_back(1); o.a.push_back(1 + s); }
		any_view out; view_t<D> base = norm(backing()); apply_op<D>(base, o, out);
		auto* p = std::get_if<view_t<D>>(&out);
		view_t<D> sv(p->layout(), const_cast<T*>(p->base()));
		{ long k = 0; fill_canon(sv, 1000, k); }
		dv = sv;
		read_canon(sv, src_after); have_src = true;
	}
	else if(kind == "assign_other") {
#ifdef VERIF_TRACKED_ELEM
		throw unsupported{"other element type"};
#else
		multi::array<int, D> other(zext<D>(sh));
		{ long k = 0; fill_canon(other(), 1000, k); }
		NO_NEWS(dv = other);
#endif
	}
	else if(kind == "assign_range") {
		if constexpr(D == 1) {
			std::vector<T> r; for(long k = 1; k <= ne; ++k) { r.push_back(mk(1000 + k)); }
			if constexpr(can_assign<view_t<1>, std::vector<T> const&>::value) { dv = r; } else { throw unsupported{"view = std::vector does not compile"}; }
		} else if constexpr(D == 2) {
			std::vector<std::vector<T>> r; long k = 0;
			for(long i = 0; i != sh[0]; ++i) { r.emplace_back(); for(long j = 0; j != sh[1]; ++j) { r.back().push_back(mk(1000 + (++k))); } }
			if constexpr(can_assign<view_t<2>, std::vector<std::vector<T>> const&>::value) { dv = r; } else { throw unsupported{"view = nested vector does not compile"}; }
		} else { throw unsupported{"range D"}; }
	}
	else if(kind == "assign_il") {
		if constexpr(D == 1) {
			std::vector<T> r; for(long k = 1; k <= ne; ++k) { r.push_back(mk(1000 + k)); }
			switch(ne) {
				case 1: assign_il1(dv, r, std::make_index_sequence<1>{}); break;
				case 2: assign_il1(dv, r, std::make_index_sequence<2>{}); break;
				case 3: assign_il1(dv, r, std::make_index_sequence<3>{}); break;
				default: throw unsupported{"il size"};
			}
		} else { throw unsupported{"il D"}; }
	}
	else if(kind == "fill") {
		if constexpr(D == 1) { dv.fill(mk(2001)); }
		else {
			std::vector<long> ish(sh.begin() + 1, sh.end());
			multi::array<T, D - 1> inner(zext<D - 1>(ish), mk(0));
			{ long k = 0; fill_canon(inner(), 2000, k); }
			dv.fill(inner);
		}
	}
	else if(kind == "std_fill_elements") { auto&& es = dv.elements(); std::fill(es.begin(), es.end(), mk(2000)); }
	else if(kind == "elements_assign") { dv.elements() = src.elements(); }
	else if(kind == "swap") {
		multi::array<T, D> backing; auto sv = rotview(backing);
		{ long k = 0; fill_canon(sv, 1000, k); }
		using std::swap;
		swap(std::move(dv), std::move(sv));  // views are reference-like: the library provides swap for rvalue views
		read_canon(sv, src_after); have_src = true;
	}
	else if(kind == "assign_rvalue_rotview") {   // the source is a mutable rvalue view
		multi::array<T, D> backing; auto sv = rotview(backing);
		{ long k = 0; fill_canon(sv, 1000, k); }
		dv = std::move(sv);
		read_canon(sv, src_after); have_src = true;
	}
	else if(kind == "assign_innerT" || kind == "assign_rvalue_innerT") {   // D >= 3: same leading dimension, the two last dimensions transposed in memory
		if constexpr(D >= 3) {
			std::vector<long> bsh(sh); std::swap(bsh[D - 1], bsh[D - 2]);
			multi::array<T, D> backing(zext<D>(bsh), mk(-7));
			op_t r; r.name = "rotated"; op_t t; t.name = "transposed"; op_t u; u.name = "unrotated";
			// swap the last two dimensions: rotate them to the front, transpose, rotate back
			any_view cur; put<D>(cur, norm(backing()));
			std::vector<op_t> prog;
			for(int q = 0; q != D - 2; ++q) { prog.push_back(r); }
			prog.push_back(t);
			for(int q = 0; q != D - 2; ++q) { prog.push_back(u); }
			std::string st; run_ops(cur, prog, st);
			auto* p = std::get_if<view_t<D>>(&cur);
			view_t<D> sv(p->layout(), const_cast<T*>(p->base()));
			{ long k = 0; fill_canon(sv, 1000, k); }
			if(kind == "assign_innerT") { dv = sv; } else { dv = std::move(sv); }
			read_canon(sv, src_after); have_src = true;
		} else { throw unsupported{"innerT needs D >= 3"}; }
	}
	else if(kind == "swap_same_layout") {   // the other view has the same layout over another buffer
		if(twin == nullptr) { throw unsupported{"no twin"}; }
		{ long k = 0; fill_canon(*twin, 1000, k); }
		using std::swap;
		swap(std::move(dv), std::move(*twin));
		read_canon(*twin, src_after); have_src = true;
	}
	else if(kind == "assign_moved_view") { dv = std::move(src)(); }
	else if(kind == "move_from") {
		multi::array<T, D> taken(dv.element_moved());
		read_canon(taken(), sink);
	}
	else { throw unsupported{"kind " + kind}; }
	if(!have_src) { read_canon(src(), src_after); }
	os << ",\"src\":"; jlist(os, src_after);
	os << ",\"sink\":"; jlist(os, sink);
}

// destination and source are two views of ONE allocation whose addresses interleave (element k of the destination root
// and element k of the source root are neighbours in memory): disjoint elements, overlapping address hulls
template<int D> void run_interleaved(long id, view_program const& p) {
	std::ostringstream os;
	os << "{\"id\":" << id;
	if constexpr(D >= 4) { os << ",\"st\":\"unsupported\",\"why\":\"interleaved D>=4\"}\n"; std::cout << os.str() << std::flush; return; }
	else {
	std::vector<long> sz(p.sizes); sz.push_back(2);
	std::vector<long> fi(p.firsts); fi.push_back(0);
	multi::array<T, D + 1> big(make_ext<D + 1>(sz, fi, std::make_index_sequence<D + 1>{}), mk(SENT));
	view_t<D> rootA = norm(big.unrotated()[0]);
	view_t<D> rootB = norm(big.unrotated()[1]);
	{ long c = 0; for(auto& e : rootA.elements()) { e = mk(c++); } }
	{ long c = 0; for(auto& e : rootB.elements()) { e = mk(5000 + (c++)); } }
	any_view curA, curB;
	put<D>(curA, view_t<D>(rootA.layout(), unconst(rootA.base())));
	put<D>(curB, view_t<D>(rootB.layout(), unconst(rootB.base())));
	std::string stA, stB;
	run_ops(curA, p.ops, stA);
	run_ops(curB, p.ops, stB);
	if(stA == "abort" || stB == "abort") { os << ",\"st\":\"abort\",\"at\":\"view\",\"abort\":" << guard::last_json(); }
	else if(stA != "ok" || stB != "ok") { os << ",\"st\":\"unsupported\",\"why\":\"" << stA << "\""; }
	else {
		std::string why; bool fin = true;
		std::vector<long> src_after;
		try {
			fin = guard::run([&] {
				std::visit([&](auto& dv) {
					using V = std::decay_t<decltype(dv)>;
					if constexpr(std::is_same_v<V, std::monostate> || std::is_same_v<V, elem0>) { throw unsupported{"element"}; }
					else {
						auto* sv = std::get_if<V>(&curB);
						if(sv == nullptr) { throw unsupported{"shape"}; }
						{ long k = 0; fill_canon(*sv, 1000, k); }
						NO_NEWS(dv = *sv);
						read_canon(*sv, src_after);
					}
				}, curA);
			});
		} catch(unsupported const& u) { why = u.why; }
		if(!why.empty()) { os << ",\"st\":\"unsupported\",\"why\":\"" << why << "\""; }
		else if(!fin) { os << ",\"st\":\"abort\",\"at\":\"op\",\"abort\":" << guard::last_json(); }
		else {
			std::vector<long> store; for(auto const& e : rootA.elements()) { store.push_back(val_of(e)); }
			os << ",\"st\":\"ok\",\"news\":" << g_news << ",\"src\":"; jlist(os, src_after); os << ",\"sink\":[]";
			os << ",\"store\":"; jlist(os, store);
			os << ",\"guards_ok\":true,\"twin_frame_ok\":true,\"root_ok\":true";
		}
	}
	os << "}\n";
	std::cout << os.str() << std::flush;
	}
}

template<int D> void run_case(long id, view_program const& p, std::string const& kind) {
	g_news_armed = false; g_news = 0;
	if(kind == "assign_interleaved") { run_interleaved<D>(id, p); return; }
	long n = 1; for(auto s : p.sizes) { n *= s; }
	std::vector<T> buf(static_cast<std::size_t>(n + 2 * GUARD), mk(SENT));
	multi::array_ref<T, D> root(buf.data() + GUARD, make_ext<D>(p.sizes, p.firsts, std::make_index_sequence<D>{}));
	for(long c = 0; c != n; ++c) { buf[static_cast<std::size_t>(GUARD + c)] = mk(c); }
	std::vector<T> buf2(static_cast<std::size_t>(n + 2 * GUARD), mk(SENT));
	multi::array_ref<T, D> root2(buf2.data() + GUARD, make_ext<D>(p.sizes, p.firsts, std::make_index_sequence<D>{}));
	for(long c = 0; c != n; ++c) { buf2[static_cast<std::size_t>(GUARD + c)] = mk(5000 + c); }
	any_view cur2;
	put<D>(cur2, norm(root2()));
	{ std::string st2; g_root = root2.data_elements(); run_ops(cur2, p.ops, st2); }
	g_root = root.data_elements();
	any_view cur;
	put<D>(cur, norm(root()));
	std::ostringstream os;
	os << "{\"id\":" << id;
	std::string status;
	run_ops(cur, p.ops, status);
	if(status == "abort") { os << ",\"st\":\"abort\",\"at\":\"view\",\"abort\":" << guard::last_json(); }
	else if(status != "ok") { os << ",\"st\":\"unsupported\",\"why\":\"" << status << "\""; }
	else {
		std::ostringstream body;
		std::string why;
		bool fin = true;
		try {
			fin = guard::run([&] {
				std::visit([&](auto& v) {
					using V = std::decay_t<decltype(v)>;
					if constexpr(std::is_same_v<V, std::monostate> || std::is_same_v<V, elem0>) { throw unsupported{"element"}; }
					else { do_op<V::rank_v>(v, std::get_if<V>(&cur2), kind, body); }
				}, cur);
			});
		} catch(unsupported const& u) { why = u.why; }
		if(!why.empty()) { os << ",\"st\":\"unsupported\",\"why\":\"" << why << "\""; }
		else if(!fin) { os << ",\"st\":\"abort\",\"at\":\"op\",\"abort\":" << guard::last_json(); }
		else {
			os << ",\"st\":\"ok\",\"news\":" << g_news << body.str();
			std::vector<long> store;
			for(long c = 0; c != n; ++c) { store.push_back(val_of(buf[static_cast<std::size_t>(GUARD + c)])); }
			bool guards = true;
			for(long g = 0; g != GUARD; ++g) { if(val_of(buf[static_cast<std::size_t>(g)]) != SENT || val_of(buf[static_cast<std::size_t>(GUARD + n + g)]) != SENT) { guards = false; } }
			os << ",\"store\":"; jlist(os, store);
			os << ",\"guards_ok\":" << (guards ? "true" : "false");
			// the root itself was neither rebound nor resized
			{   // the twin buffer: cells not viewed must be unchanged (5000 + c), guards intact
				bool tw = true;
				std::vector<long> viewed2;
				std::visit([&](auto& v2) { using V2 = std::decay_t<decltype(v2)>; if constexpr(!std::is_same_v<V2, std::monostate> && !std::is_same_v<V2, elem0>) { for(auto const& e : v2.elements()) { viewed2.push_back(static_cast<long>(&e - (buf2.data() + GUARD))); } } }, cur2);
				for(long c = -GUARD; c != n + GUARD; ++c) {
					if(std::find(viewed2.begin(), viewed2.end(), c) != viewed2.end()) { continue; }
					long want = (c < 0 || c >= n) ? SENT : 5000 + c;
					if(val_of(buf2[static_cast<std::size_t>(GUARD + c)]) != want) { tw = false; }
				}
				os << ",\"twin_frame_ok\":" << (tw ? "true" : "false");
			}
			os << ",\"root_ok\":" << ((root.data_elements() == buf.data() + GUARD && static_cast<long>(root.num_elements()) == n) ? "true" : "false");
		}
	}
	os << "}\n";
	std::cout << os.str() << std::flush;
}

int main() {
	guard::install();
	std::ios::sync_with_stdio(false);
	std::string line;
	while(std::getline(std::cin, line)) {
		if(line.empty() || line[0] != 'A') { continue; }
		std::istringstream is(line);
		std::string tag, kind; long id = 0;
		is >> tag >> id;
		view_program p = parse_view_program(is);
		is >> kind;
		guard::context() = id;
		switch(p.D) {
			case 1: run_case<1>(id, p, kind); break;
			case 2: run_case<2>(id, p, kind); break;
			case 3: run_case<3>(id, p, kind); break;
			case 4: run_case<4>(id, p, kind); break;
			default: std::cout << "{\"id\":" << id << ",\"st\":\"unsupported\",\"why\":\"root D\"}\n";
		}
	}
	return 0;
}
