// Replayer for property C03: runs one standard algorithm on the begin()/end() range of a view
// (items are proxy sub-views when D > 1) or on its elements() range, over pseudo-random data
// with duplicates, and records the whole storage before and after, the auxiliary range before
// and after, and the returned position/value.  No expected values in here.
//
// input:  G <id> <view program> <kind:outer|elems> <alg> <arg> <seed>
// output: {"e":"Alg","id":..,"st":"ok","alg":..,"kind":..,"args":[arg],"pivot":[..],"pre":[..],"post":[..],
//          "auxpre":[[..]..],"auxpost":[[..]..],"ret":n}
#define VERIF_ELEM long
#include "viewprog.hpp"
#include <functional>

#include <algorithm>
#include <numeric>

template<int D, std::size_t... K> auto zext(std::vector<long> const& sh, std::index_sequence<K...> /*u*/) { return multi::extensions_t<D>{multi::iextension(0, sh[K])...}; }
template<int D> auto zext(std::vector<long> const& sh) { return zext<D>(sh, std::make_index_sequence<D>{}); }
template<int D, class Tup, std::size_t... K> void szv(Tup const& t, std::vector<long>& out, std::index_sequence<K...> /*u*/) {
	using boost::multi::detail::get;
	(out.push_back(static_cast<long>(get<K>(t))), ...);
}
struct lcg { unsigned long s; long next(long m) { s = s * 6364136223846793005UL + 1442695040888963407UL; return static_cast<long>((s >> 33) % static_cast<unsigned long>(m)); } };

template<class V> void item_values(V const& v, std::vector<long>& out) {
	if constexpr(std::is_arithmetic_v<std::decay_t<V>>) { out.push_back(v); }
	else { for(auto const& e : v.elements()) { out.push_back(e); } }
}
static void jll(std::ostream& os, std::vector<std::vector<long>> const& vv) {
	os << '[';
	for(std::size_t i = 0; i != vv.size(); ++i) { if(i) os << ','; jlist(os, vv[i]); }
	os << ']';
}

// runs the algorithm on [first, last) with auxiliary range starting at afirst; Val is the value_type of the range
template<class It, class AIt>
long run_alg(std::string const& alg, long arg, It first, It last, AIt afirst, AIt alast, std::vector<long>& pivot_out) {
	using Val = typename std::iterator_traits<It>::value_type;
	long n = static_cast<long>(last - first);
	auto pos = [&](It it) { return static_cast<long>(it - first); };
	auto pivot_of = [&](long k) { Val p = *(first + k); item_values(p, pivot_out); return p; };
	if(alg == "sort") { std::sort(first, last); return -1; }
	if(alg == "stable_sort") { std::stable_sort(first, last); return -1; }
	if(alg == "partial_sort") { std::partial_sort(first, first + arg, last); return -1; }
	if(alg == "nth_element") { std::nth_element(first, first + arg, last); return -1; }
	if(alg == "rotate") { return pos(std::rotate(first, first + arg, last)); }
	if(alg == "reverse") { std::reverse(first, last); return -1; }
	if(alg == "partition") { Val p = pivot_of(arg); return pos(std::partition(first, last, [&](auto const& x) { return x < p; })); }
	if(alg == "unique") { return pos(std::unique(first, last)); }
	if(alg == "remove") { Val p = pivot_of(arg); return pos(std::remove(first, last, p)); }
	if(alg == "copy") { return static_cast<long>(std::copy(first, last, afirst) - afirst); }
	if(alg == "copy_backward") { auto r = std::copy_backward(first, last, alast); return static_cast<long>(alast - r); }
	if(alg == "move") { return static_cast<long>(std::move(first, last, afirst) - afirst); }
	if(alg == "copy_from") { return pos(std::copy(afirst, alast, first)); }
	if(alg == "swap_ranges") { return static_cast<long>(std::swap_ranges(first, last, afirst) - afirst); }
	if(alg == "fill") { Val p = pivot_of(arg); std::fill(first, last, p); return -1; }
	if(alg == "find") { Val p = pivot_of(arg); return pos(std::find(first, last, p)); }
	if(alg == "equal") { return std::equal(first, last, afirst) ? 1 : 0; }
	if(alg == "is_sorted") { return std::is_sorted(first, last) ? 1 : 0; }
	if(alg == "is_sorted_greater") { return std::is_sorted(first, last, std::greater<>{}) ? 1 : 0; }
	if(alg == "sort_greater") { std::sort(first, last, std::greater<>{}); return -1; }
	if(alg == "lexicographical_compare") { return std::lexicographical_compare(first, last, afirst, alast) ? 1 : 0; }
	if constexpr(std::is_arithmetic_v<Val>) {
		if(alg == "accumulate") { return std::accumulate(first, last, 0L); }
		if(alg == "transform") { return static_cast<long>(std::transform(first, last, afirst, [](long x) { return x + 1; }) - afirst); }
	}
	(void)n;
	throw unsupported{"algorithm " + alg};
}

template<int D, int RD> void do_case(multi::array<T, RD>& root, view_t<D>& v, std::string const& kind, std::string const& alg, long arg, lcg& rng, std::ostream& os) {
	std::vector<long> sh;
	szv<D>(v.sizes(), sh, std::make_index_sequence<D>{});
	multi::array<T, D> aux(v.extensions(), 0L);   // same index extensions as the view: assigning a row to a row of another index base is outside the library's domain
	for(auto& e : aux.elements()) { e = rng.next(3); }
	auto dump_root = [&](std::vector<long>& out) { for(auto const& e : root.elements()) { out.push_back(e); } };
	auto dump_aux = [&](std::vector<std::vector<long>>& out) {
		if(kind == "outer") { for(auto&& it : aux) { out.emplace_back(); item_values(it, out.back()); } }
		else { for(auto const& e : aux.elements()) { out.push_back({e}); } }
	};
	std::vector<long> pre, post, pivot;
	std::vector<std::vector<long>> auxpre, auxpost;
	dump_root(pre); dump_aux(auxpre);
	long ret = 0;
	if(kind == "outer") { ret = run_alg(alg, arg, v.begin(), v.end(), aux.begin(), aux.end(), pivot); }
	else { auto&& es = v.elements(); auto&& aes = aux.elements(); ret = run_alg(alg, arg, es.begin(), es.end(), aes.begin(), aes.end(), pivot); }
	dump_root(post); dump_aux(auxpost);
	os << ",\"args\":[" << arg << "],\"pivot\":"; jlist(os, pivot);
	os << ",\"pre\":"; jlist(os, pre); os << ",\"post\":"; jlist(os, post);
	os << ",\"auxpre\":"; jll(os, auxpre); os << ",\"auxpost\":"; jll(os, auxpost);
	os << ",\"ret\":" << ret;
}

template<int D> void run_case(long id, view_program const& p, std::string const& kind, std::string const& alg, long arg, long seed) {
	multi::array<T, D> root(make_ext<D>(p.sizes, p.firsts, std::make_index_sequence<D>{}));
	lcg rng{static_cast<unsigned long>(seed) * 1000003UL + static_cast<unsigned long>(id) * 7919UL + 12345UL};
	for(auto& e : root.elements()) { e = rng.next(3); }
	g_root = root.data_elements();
	any_view cur;
	put<D>(cur, norm(root()));
	std::ostringstream os;
	os << "{\"e\":\"Alg\",\"id\":" << id << ",\"alg\":\"" << alg << "\",\"kind\":\"" << kind << "\"";
	std::string status;
	run_ops(cur, p.ops, status);
	if(status != "ok") { os << ",\"st\":\"" << (status == "abort" ? "abort" : "unsupported") << "\",\"why\":\"view " << status << "\""; if(status == "abort") { os << ",\"abort\":" << guard::last_json(); } }
	else {
		std::ostringstream body;
		std::string why;
		bool fin = true;
		try {
			fin = guard::run([&] {
				std::visit([&](auto& v) {
					using V = std::decay_t<decltype(v)>;
					if constexpr(std::is_same_v<V, std::monostate> || std::is_same_v<V, elem0>) { throw unsupported{"element"}; }
					else { do_case<V::rank_v, D>(root, v, kind, alg, arg, rng, body); }
				}, cur);
			});
		} catch(unsupported const& u) { why = u.why; }
		if(!why.empty()) { os << ",\"st\":\"unsupported\",\"why\":\"" << why << "\""; }
		else if(!fin) { os << ",\"st\":\"abort\",\"abort\":" << guard::last_json(); }
		else { os << ",\"st\":\"ok\"" << body.str(); }
	}
	os << "}\n";
	std::cout << os.str() << std::flush;
}

int main() {
	guard::install();
	std::ios::sync_with_stdio(false);
	std::string line;
	while(std::getline(std::cin, line)) {
		if(line.empty() || line[0] != 'G') { continue; }
		std::istringstream is(line);
		std::string tag, kind, alg; long id = 0, arg = 0, seed = 1;
		is >> tag >> id;
		view_program p = parse_view_program(is);
		is >> kind >> alg >> arg >> seed;
		guard::context() = id;
		switch(p.D) {
			case 1: run_case<1>(id, p, kind, alg, arg, seed); break;
			case 2: run_case<2>(id, p, kind, alg, arg, seed); break;
			case 3: run_case<3>(id, p, kind, alg, arg, seed); break;
			default: std::cout << "{\"e\":\"Alg\",\"id\":" << id << ",\"st\":\"unsupported\",\"why\":\"root D\"}\n";
		}
	}
	return 0;
}
