// Replayer for property C20 (R3): after a valid view program, performs ONE out-of-domain step and
// reports how it ended (library assertion / other stop / not stopped).  The root is an array_ref
// into a buffer with wide guard zones so that an access that is not stopped stays inside harness
// memory and can be reported as a cell number.
//
// input:  K <id> <view program> <kind> <nargs> <args..>
// output: {"id":..,"st":"ok","outcome":"assert"|"stopped_other"|"not_stopped","abort":{..},"cell":c,"in_root":bool}
#define VERIF_ELEM long
#include "viewprog.hpp"

constexpr long GUARD = 4096;

template<int D, std::size_t... K> auto zext(std::vector<long> const& sh, std::index_sequence<K...> /*u*/) { return multi::extensions_t<D>{multi::iextension(0, sh[K])...}; }
template<int D, class Tup, std::size_t... K> void szv(Tup const& t, std::vector<long>& out, std::index_sequence<K...> /*u*/) {
	using boost::multi::detail::get;
	(out.push_back(static_cast<long>(get<K>(t))), ...);
}
template<class V> auto first_valid_chain(V const& v, long bad) {   // v[f0][f1]...[bad]
	constexpr int DD = V::rank_v;
	if constexpr(DD == 1) { return &v[bad]; }
	else { return first_valid_chain(v[v.extension().first()], bad); }
}
template<int D, class V, class... Is> long* call_with(V& v, long bad, bool bad_first, Is... is) {
	if constexpr(sizeof...(Is) == D) { return const_cast<long*>(&v(is...)); }
	else {
		constexpr std::size_t k = sizeof...(Is);
		long idx = 0;
		{   // first valid index of dimension k
			std::vector<long> f, l;
			auto xs = v.extensions();
			using boost::multi::detail::get;
			idx = static_cast<long>(get<k>(xs.base()).first());
		}
		if((bad_first && k == 0) || (!bad_first && k + 1 == D)) { idx = bad; }
		return call_with<D>(v, bad, bad_first, is..., static_cast<multi::index>(idx));
	}
}

template<int D> void bad_step(view_t<D>& v, std::string const& kind, std::vector<long> const& a, std::ostream& os, long root_n) {
	long* touched = nullptr;
	volatile long sink = 0;
	bool fin = guard::run([&] {
		if(kind == "index") {
			if constexpr(D == 1) { touched = const_cast<long*>(&v[a[0]]); sink = *touched; }
			else { auto&& s = v[a[0]]; touched = const_cast<long*>(s.base()); }
		} else if(kind == "index_far_up" || kind == "index_far_down") {
			// an index 2^32 away from a valid one (the offset a[0] is valid): must be stopped like any other; nothing is read
			long const far = a[0] + (kind == "index_far_up" ? (1L << 32) : -(1L << 32));
			if constexpr(D == 1) { touched = const_cast<long*>(&v[far]); }
			else { auto&& s = v[far]; touched = const_cast<long*>(s.base()); }
		} else if(kind == "deep_index") { touched = const_cast<long*>(first_valid_chain(v, a[0])); sink = *touched; }
		else if(kind == "call_first") { touched = call_with<D>(v, a[0], true); sink = *touched; }
		else if(kind == "call_last") { touched = call_with<D>(v, a[0], false); sink = *touched; }
		else if(kind == "sliced") { auto&& s = v.sliced(a[0], a[1]); touched = const_cast<long*>(s.base()); }
		else if(kind.rfind("assign_", 0) == 0) {
			// assign_<longer|shorter|swapped>_<array|view|rview|crview|oview>_<lv|rv>
			std::vector<long> sh; szv<D>(v.sizes(), sh, std::make_index_sequence<D>{});
			auto has = [&](char const* w) { return kind.find(w) != std::string::npos; };
			if(has("longer")) { sh[0] += 1; }
			else if(has("shorter")) { sh[0] -= 1; if(sh[0] < 0) { sh[0] = 0; } }
			else if(has("swapped")) { if constexpr(D >= 2) { std::swap(sh[D - 1], sh[D - 2]); } }
			multi::array<long, D> other(zext<D>(sh, std::make_index_sequence<D>{}), 77L);
			multi::array<int, D> iother(zext<D>(sh, std::make_index_sequence<D>{}), 77);
			bool const rdest = has("_rv");
			auto assign = [&](auto&& src) { if(rdest) { std::move(v) = std::forward<decltype(src)>(src); } else { v = std::forward<decltype(src)>(src); } };
			if(has("_crview_")) { assign(std::as_const(other)()); }            // a temporary read-only view
			else if(has("_oview_")) { assign(iother()); }                       // a temporary view of another element type
			else if(has("_rview_")) { assign(other()); }                        // a temporary view
			else if(has("_view_")) { auto&& ov = other(); assign(ov); }         // a named view
			else { assign(other); }                                             // an array
		}
	});
	(void)sink;
	if(!fin) {
		auto const& e = guard::last();
		bool lib = e.file.find("include/boost/multi") != std::string::npos;
		os << ",\"outcome\":\"" << ((e.kind == "assert" && lib) ? "assert" : "stopped_other") << "\",\"abort\":" << guard::last_json();
	} else {
		os << ",\"outcome\":\"not_stopped\"";
		if(touched != nullptr) { long c = cellno(touched); os << ",\"cell\":" << c << ",\"in_root\":" << ((c >= 0 && c < root_n) ? "true" : "false"); }
	}
}

template<int D> void run_case(long id, view_program const& p, std::string const& kind, std::vector<long> const& a) {
	long n = 1; for(auto s : p.sizes) { n *= s; }
	std::vector<long> buf(static_cast<std::size_t>(n + 2 * GUARD), -555L);
	multi::array_ref<long, D> root(buf.data() + GUARD, make_ext<D>(p.sizes, p.firsts, std::make_index_sequence<D>{}));
	for(long c = 0; c != n; ++c) { buf[static_cast<std::size_t>(GUARD + c)] = c; }
	g_root = root.data_elements();
	any_view cur;
	put<D>(cur, norm(root()));
	std::ostringstream os;
	os << "{\"id\":" << id;
	std::string status;
	run_ops(cur, p.ops, status);
	if(status != "ok") { os << ",\"st\":\"" << (status == "abort" ? "abort_in_valid_prefix" : "unsupported") << "\""; if(status == "abort") { os << ",\"abort\":" << guard::last_json(); } }
	else {
		os << ",\"st\":\"ok\"";
		std::visit([&](auto& v) {
			using V = std::decay_t<decltype(v)>;
			if constexpr(std::is_same_v<V, std::monostate> || std::is_same_v<V, elem0>) { os << ",\"outcome\":\"unsupported\""; }
			else { bad_step<V::rank_v>(v, kind, a, os, n); }
		}, cur);
		bool guards = true;
		for(long g = 0; g != GUARD; ++g) { if(buf[static_cast<std::size_t>(g)] != -555L || buf[static_cast<std::size_t>(GUARD + n + g)] != -555L) { guards = false; } }
		os << ",\"guards_ok\":" << (guards ? "true" : "false");
	}
	os << "}\n";
	std::cout << os.str() << std::flush;
}

int main() {
	guard::install();
	std::ios::sync_with_stdio(false);
	std::string line;
	while(std::getline(std::cin, line)) {
		if(line.empty() || line[0] != 'K') { continue; }
		std::istringstream is(line);
		std::string tag, kind; long id = 0; std::size_t na = 0;
		is >> tag >> id;
		view_program p = parse_view_program(is);
		is >> kind >> na;
		std::vector<long> a(na);
		for(auto& x : a) { is >> x; }
		guard::context() = id;
		switch(p.D) {
			case 1: run_case<1>(id, p, kind, a); break;
			case 2: run_case<2>(id, p, kind, a); break;
			case 3: run_case<3>(id, p, kind, a); break;
			default: std::cout << "{\"id\":" << id << ",\"st\":\"unsupported\"}\n";
		}
	}
	return 0;
}
