// Replayer for property C18: for each view builds mpi::message(view.elements()), records every MPI datatype
// constructor/commit/free call through the PMPI profiling interface, packs the message and unpacks it into a
// view of equal extents and another layout.  One process, singleton MPI_Init.  No expected values in here.
//
// input:  M <id> <view program>
// stdout: {"id":..,"st":"ok","packed":[..],"unpacked":[..],"unpack_frame":true}
// trace (argv[1]): ndjson events {"op":..,"new":h,"old":o,"count":c,"blocklen":b,"stride":s,"buf":off,"cells":[]}
#include <mpi.h>

#include <cstdio>
#include <map>

static FILE* g_trace = nullptr;
static std::map<MPI_Datatype, long> g_ids;
static long g_next = 1;
static long id_of(MPI_Datatype t) {
	if(t == MPI_INT) { return 0; }
	auto it = g_ids.find(t);
	if(it != g_ids.end()) { return it->second; }
	return -1;
}
static long new_id(MPI_Datatype t) { long h = g_next++; g_ids[t] = h; return h; }
static void ev(char const* op, long nw, long old, long count, long bl, long stride) {
	if(g_trace != nullptr) { std::fprintf(g_trace, "{\"op\":\"%s\",\"new\":%ld,\"old\":%ld,\"count\":%ld,\"blocklen\":%ld,\"stride\":%ld,\"buf\":0,\"cells\":[]}\n", op, nw, old, count, bl, stride); }
}
extern "C" {
int MPI_Type_create_hvector(int count, int blocklength, MPI_Aint stride, MPI_Datatype oldtype, MPI_Datatype* newtype) {
	int r = PMPI_Type_create_hvector(count, blocklength, stride, oldtype, newtype);
	ev("hvector", new_id(*newtype), id_of(oldtype), count, blocklength, static_cast<long>(stride));
	return r;
}
int MPI_Type_create_resized(MPI_Datatype oldtype, MPI_Aint lb, MPI_Aint extent, MPI_Datatype* newtype) {
	int r = PMPI_Type_create_resized(oldtype, lb, extent, newtype);
	ev("resized", new_id(*newtype), id_of(oldtype), 0, static_cast<long>(lb), static_cast<long>(extent));
	return r;
}
int MPI_Type_dup(MPI_Datatype oldtype, MPI_Datatype* newtype) {
	int r = PMPI_Type_dup(oldtype, newtype);
	ev("dup", new_id(*newtype), id_of(oldtype), 0, 0, 0);
	return r;
}
int MPI_Type_vector(int count, int blocklength, int stride, MPI_Datatype oldtype, MPI_Datatype* newtype) {
	int r = PMPI_Type_vector(count, blocklength, stride, oldtype, newtype);
	int sz = 0; PMPI_Type_size(oldtype, &sz);
	ev("hvector", new_id(*newtype), id_of(oldtype), count, blocklength, static_cast<long>(stride) * sz);
	return r;
}
int MPI_Type_commit(MPI_Datatype* t) { int r = PMPI_Type_commit(t); ev("commit", id_of(*t), 0, 0, 0, 0); return r; }
int MPI_Type_free(MPI_Datatype* t) { long h = id_of(*t); if(h > 0) { g_ids.erase(*t); } int r = PMPI_Type_free(t); ev("free", h, 0, 0, 0, 0); return r; }
}

#define VERIF_ELEM int
#include "viewprog.hpp"

#include <boost/multi/adaptors/mpi.hpp>

template<int D, std::size_t... K> auto zext(std::vector<long> const& sh, std::index_sequence<K...> /*u*/) { return multi::extensions_t<D>{multi::iextension(0, sh[K])...}; }

template<int RD, int D> void do_case(multi::array<int, RD>& root, view_t<D>& v, std::ostream& os, std::string const& cells_json) {
	long ne = static_cast<long>(v.num_elements());
	std::vector<int> packed(static_cast<std::size_t>(ne) + 4, -1);
	{
		multi::mpi::message<> msg(v.elements());
		long buf_off = static_cast<long>(reinterpret_cast<char const*>(msg.buffer()) - reinterpret_cast<char const*>(root.data_elements()));
		std::fprintf(g_trace, "{\"op\":\"message\",\"new\":%ld,\"old\":0,\"count\":%ld,\"blocklen\":0,\"stride\":0,\"buf\":%ld,\"cells\":%s}\n", id_of(msg.datatype()), static_cast<long>(msg.count()), buf_off, cells_json.c_str());
		int pos = 0;
		ev("use", id_of(msg.datatype()), 0, 0, 0, 0);
		MPI_Pack(msg.buffer(), msg.count(), msg.datatype(), packed.data(), static_cast<int>(packed.size() * sizeof(int)), &pos, MPI_COMM_SELF);
		os << ",\"packed_bytes\":" << pos;
	}
	packed.resize(static_cast<std::size_t>(ne));
	os << ",\"packed\":"; { std::vector<long> p(packed.begin(), packed.end()); jlist(os, p); }
	// unpack into a view with rotated memory layout (k-th element to k-th element)
	std::vector<long> sh;
	{ using boost::multi::detail::get; auto s = v.sizes(); [&]<std::size_t... K>(std::index_sequence<K...>) { (sh.push_back(static_cast<long>(get<K>(s))), ...); }(std::make_index_sequence<D>{}); }
	std::vector<long> ush(sh);
	if(D > 1) { ush.insert(ush.begin(), ush.back()); ush.pop_back(); } else { ush[0] *= 2; }
	multi::array<int, D> backing(zext<D>(ush, std::make_index_sequence<D>{}), -7);
	auto recv = [&](auto&& rv) {
		{
			multi::mpi::message<> rmsg(rv.elements());
			int pos = 0;
			ev("use", id_of(rmsg.datatype()), 0, 0, 0, 0);
			MPI_Unpack(packed.data(), static_cast<int>(packed.size() * sizeof(int)), &pos, rmsg.buffer(), rmsg.count(), rmsg.datatype(), MPI_COMM_SELF);
		}
		std::vector<long> got; for(auto const& e : rv.elements()) { got.push_back(e); }
		os << ",\"unpacked\":"; jlist(os, got);
		long untouched = 0; for(auto const& e : backing.elements()) { if(e == -7) { ++untouched; } }
		os << ",\"untouched\":" << untouched << ",\"backing_ne\":" << backing.num_elements();
	};
	if constexpr(D > 1) { recv(backing.rotated()); } else { recv(backing.strided(2)); }
}

template<int D> void run_case(long id, view_program const& p, std::string const& cells_json) {
	multi::array<int, D> root(make_ext<D>(p.sizes, p.firsts, std::make_index_sequence<D>{}));
	{ int c = 0; for(auto& e : root.elements()) { e = 1000 + (c++); } }
	g_root = root.data_elements();
	any_view cur; put<D>(cur, norm(root()));
	std::ostringstream os;
	os << "{\"id\":" << id;
	std::fprintf(g_trace, "{\"op\":\"reset\",\"new\":%ld,\"old\":0,\"count\":0,\"blocklen\":0,\"stride\":0,\"buf\":0,\"cells\":[]}\n", id);
	std::string status;
	run_ops(cur, p.ops, status);
	if(status != "ok") { os << ",\"st\":\"" << (status == "abort" ? "abort" : "unsupported") << "\""; }
	else {
		std::ostringstream body; std::string why; bool fin = true;
		try {
			fin = guard::run([&] {
				std::visit([&](auto& v) {
					using V = std::decay_t<decltype(v)>;
					if constexpr(std::is_same_v<V, std::monostate> || std::is_same_v<V, elem0>) { throw unsupported{"element"}; }
					else if constexpr(V::rank_v > 4) { throw unsupported{"D>4"}; }
					else { do_case<D, V::rank_v>(root, v, body, cells_json); }
				}, cur);
			});
		} catch(unsupported const& u) { why = u.why; }
		if(!why.empty()) { os << ",\"st\":\"unsupported\",\"why\":\"" << why << "\""; }
		else if(!fin) { os << ",\"st\":\"abort\",\"abort\":" << guard::last_json(); }
		else { os << ",\"st\":\"ok\"" << body.str(); std::vector<long> rv; for(auto const& e : root.elements()) { rv.push_back(e); } os << ",\"root\":"; jlist(os, rv); }
	}
	ev("end", 0, 0, 0, 0, 0);
	os << "}\n";
	std::cout << os.str() << std::flush;
}

int main(int argc, char** argv) {
	MPI_Init(&argc, &argv);
	guard::install();
	g_trace = std::fopen(argc > 1 ? argv[1] : "/dev/null", "w");
	std::ios::sync_with_stdio(false);
	std::string line;
	while(std::getline(std::cin, line)) {
		if(line.empty() || line[0] != 'M') { continue; }
		std::istringstream is(line);
		std::string tag, cells; long id = 0;
		is >> tag >> id;
		view_program p = parse_view_program(is);
		is >> cells;   // the prescribed canonical cells as a JSON list without spaces (passed through to the trace)
		guard::context() = id;
		switch(p.D) {
			case 1: run_case<1>(id, p, cells); break;
			case 2: run_case<2>(id, p, cells); break;
			case 3: run_case<3>(id, p, cells); break;
			case 4: run_case<4>(id, p, cells); break;
			default: std::cout << "{\"id\":" << id << ",\"st\":\"unsupported\"}\n";
		}
	}
	std::fclose(g_trace);
	MPI_Finalize();
	return 0;
}
