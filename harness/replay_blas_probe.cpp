// replay_blas_probe.cpp -- compile-only probe for the call forms of replay_blas_forms.hpp.
// Compiled by tools/checks/c13.py with  -fsyntax-only -DELT=<element type> -DPROBE_<NAME> ; the exit status of
// the compiler is the observation ("this form compiles for this element type").  No expected values in here.
#include <boost/multi/array.hpp>
#include <boost/multi/adaptors/blas.hpp>

#include <complex>
#include <utility>

#include "replay_blas_forms.hpp"

namespace multi = boost::multi;
namespace blas  = multi::blas;

using T = ELT;
template<class U> struct real_of { using type = U; };
template<class U> struct real_of<std::complex<U>> { using type = U; };
using Real = typename real_of<T>::type;

void probe() {
	multi::array<T, 2> A_({2, 2}, T{1});
	multi::array<T, 2> B_({2, 2}, T{1});
	multi::array<T, 1> x_(multi::extensions_t<1>{2}, T{1});
	multi::array<T, 1> y_(multi::extensions_t<1>{2}, T{1});
	multi::array<T, 1> const& xa = x_;
	auto const&               A  = A_();
	auto const&               B  = B_();
	auto const&               x  = x_();
	auto const&               y  = y_();
	auto&&                    Bv = B_();
	auto&&                    xv = x_();
	auto&&                    yv = y_();
	T                         alpha{2};
	T                         res{};
	Real                      r{};
	long                      idx = 0;
	(void)xa; (void)A; (void)B; (void)x; (void)y; (void)Bv; (void)xv; (void)yv; (void)alpha; (void)res; (void)r; (void)idx;
#if defined(PROBE_TRSM_CC)
	{ auto const& Aj = blas::J(A); auto&& Bj = blas::J(std::move(Bv)); C13_FORM_TRSM_CC(blas::side::left, blas::filling::lower, blas::diagonal::unit, alpha, Aj, std::move(Bj)); }
#elif defined(PROBE_DOT_CC)
	{ auto const& xc = blas::C(x); auto const& yc = blas::C(y); C13_FORM_DOT_CC(xc, yc, res); }
#elif defined(PROBE_ASUM_CONV_VIEW)
	C13_FORM_ASUM_CONV(r, x);
#elif defined(PROBE_ASUM_DECAY_VIEW)
	C13_FORM_ASUM_DECAY(r, x);
#elif defined(PROBE_ASUM_CONV_ARR)
	C13_FORM_ASUM_CONV(r, xa);
#elif defined(PROBE_ASUM_DECAY_ARR)
	C13_FORM_ASUM_DECAY(r, xa);
#elif defined(PROBE_IAMAX_CALL)
	C13_FORM_IAMAX_CALL(idx, x);
#elif defined(PROBE_GEMM_SOPER)
	{ multi::array<T, 2> Rz; C13_FORM_GEMM_SOPER(Rz, alpha, A, B); }
#elif defined(PROBE_SWAP_OPER)
	C13_FORM_SWAP_OPER(xv, yv);
#elif defined(PROBE_HERK_NOBETA) || defined(PROBE_HERK_BOTH) || defined(PROBE_HERK_BOTH1) || defined(PROBE_HERK_RET) || defined(PROBE_HERK_RET1)
	{
		multi::array<T, 2> C_({2, 2}, T{1});
		multi::array<T, 2> Rz;
		Real ra{2};
		auto fl = blas::filling::lower;
		(void)ra; (void)fl;
		auto one = [&](auto const& Ax, auto&& Cx) {
			(void)Ax; (void)Cx;
#if defined(PROBE_HERK_NOBETA)
			C13_FORM_HERK_NOBETA(fl, ra, Ax, std::move(Cx));
#elif defined(PROBE_HERK_BOTH)
			C13_FORM_HERK_BOTH(ra, Ax, std::move(Cx));
#elif defined(PROBE_HERK_BOTH1)
			C13_FORM_HERK_BOTH1(Ax, std::move(Cx));
#elif defined(PROBE_HERK_RET)
			C13_FORM_HERK_RET(Rz, ra, Ax);
#else
			C13_FORM_HERK_RET1(Rz, Ax);
#endif
		};
		one(A, C_());
		one(blas::J(A), C_());
		one(A, blas::J(C_()));
		one(blas::J(A), blas::J(C_()));
	}
#else
#error "no PROBE_<NAME> given"
#endif
}

int main() { probe(); return 0; }
