// Replayer for view programs (properties C01, C19, C20, C11).
// Reads programs (one per line) from stdin, executes them on the real library and
// prints one ndjson line of OBSERVATIONS per program. It contains no expected values.
//
// input line:  P <id> <D> <size_1..D> <first_1..D> <nops> { <opname> <nargs> <args...> }
#include "viewprog.hpp"

// --- access paths -----------------------------------------------------------------------
template<class V> void collect_br(V const& v, std::vector<long>& out) {  // chained brackets
	constexpr int D = V::rank_v;
	for(auto i : v.extension()) {
		if constexpr(D == 1) { out.push_back(cellno(v[i])); } else { collect_br(v[i], out); }
	}
}
template<class V> void collect_it(V const& v, std::vector<long>& out) {  // *(begin()+k), k = 0..size
	constexpr int D = V::rank_v;
	for(multi::size_t k = 0; k != v.size(); ++k) {
		if constexpr(D == 1) { out.push_back(cellno(*(v.begin() + k))); } else { collect_it(*(v.begin() + k), out); }
	}
}
template<class V> void collect_rangefor(V const& v, std::vector<long>& out) {  // for(auto&& r : v)
	constexpr int D = V::rank_v;
	for(auto&& r : v) {
		if constexpr(D == 1) { out.push_back(cellno(r)); } else { collect_rangefor(r, out); }
	}
}
template<int D, class V, class... Is> void collect_call(V const& v, view_t<D> const& top, std::vector<long>& out, Is... is) {
	// enumerate index tuples through the extensions of the sub-views, access with top(i,j,k) and top.apply(tuple)
	if constexpr(sizeof...(Is) == D) {
		out.push_back(cellno(top(is...)));
	} else {
		for(auto i : v.extension()) {
			if constexpr(V::rank_v == 1) { collect_call<D>(v, top, out, is..., i); }
			else { collect_call<D>(v[i], top, out, is..., i); }
		}
	}
}
template<int D, class V, class... Is> void collect_apply(V const& v, view_t<D> const& top, std::vector<long>& out, Is... is) {
	if constexpr(sizeof...(Is) == D) {
		out.push_back(cellno(top.apply(std::make_tuple(is...))));
	} else {
		for(auto i : v.extension()) {
			if constexpr(V::rank_v == 1) { collect_apply<D>(v, top, out, is..., i); }
			else { collect_apply<D>(v[i], top, out, is..., i); }
		}
	}
}
template<class C, class Sizes, std::size_t K = 0> void collect_cursor(C cur, Sizes const& sz, std::vector<long>& out) {
	constexpr std::size_t D = std::tuple_size_v<Sizes>;
	for(long p = 0; p != sz[K]; ++p) {
		if constexpr(K + 1 == D) { out.push_back(cellno(cur[p])); }
		else { collect_cursor<decltype(cur[p]), Sizes, K + 1>(cur[p], sz, out); }
	}
}

template<class Tup, std::size_t... K> void tup_vec(Tup const& t, std::vector<long>& out, std::index_sequence<K...> /*unused*/) {
	using boost::multi::detail::get;
	(out.push_back(static_cast<long>(get<K>(t))), ...);
}
template<class Tup, std::size_t... K> void ext_vec(Tup const& t, std::vector<long>& f, std::vector<long>& l, std::index_sequence<K...> /*unused*/) {
	using boost::multi::detail::get;
	(f.push_back(static_cast<long>(get<K>(t).first())), ...);
	(l.push_back(static_cast<long>(get<K>(t).last())), ...);
}

template<class L> void lay_vec(L const& l, std::vector<long>& o, std::vector<long>& n) {
	if constexpr(L::rank_v >= 1) {
		o.push_back(static_cast<long>(l.offset()));
		n.push_back(static_cast<long>(l.nelems()));
		lay_vec(l.sub(), o, n);
	}
}

template<int D> void observe(view_t<D> const& v, std::ostream& os) {
	using std::get;
	std::vector<long> sizes, strides;
	std::array<long, D> sz{};
	tup_vec(v.sizes(), sizes, std::make_index_sequence<D>{});
	tup_vec(v.strides(), strides, std::make_index_sequence<D>{});
	for(std::size_t k = 0; k != static_cast<std::size_t>(D); ++k) { sz[k] = sizes[k]; }
	long ne = static_cast<long>(v.num_elements());
	os << "\"D\":" << D << ",\"sizes\":"; jlist(os, sizes);
	os << ",\"ne\":" << ne << ",\"empty\":" << (v.is_empty() ? "true" : "false") << ",\"size\":" << static_cast<long>(v.size());
	os << ",\"strides\":"; jlist(os, strides);
	// layout numbers (drift mode only)
	{
		std::vector<long> o, n;
		lay_vec(v.layout(), o, n);
		os << ",\"lay\":[";
		for(std::size_t d = 0; d != static_cast<std::size_t>(D); ++d) { if(d) os << ','; os << '[' << strides[d] << ',' << o[d] << ',' << n[d] << ']'; }
		os << "],\"base\":" << cellno(v.base());
	}
	if(ne == 0) { os << ",\"cells\":[]"; return; }
	// extensions (only meaningful for non-empty views)
	{
		os << ",\"ext\":[";
		std::vector<long> xf, xl;
		ext_vec(v.extensions().base(), xf, xl, std::make_index_sequence<D>{});
		for(std::size_t k = 0; k != xf.size(); ++k) { os << (k ? "," : "") << '[' << xf[k] << ',' << xl[k] << ']'; }
		os << ']';
	}
	std::vector<long> br;
	if(!guard::run([&] { collect_br(v, br); })) { os << ",\"cells\":null,\"cells_abort\":" << guard::last_json(); return; }
	os << ",\"cells\":"; jlist(os, br);
	os << ",\"agree\":{";
	bool firstk = true;
	auto path = [&](char const* name, auto&& body) {
		std::vector<long> alt;
		bool ok = guard::run([&] { body(alt); });
		if(!firstk) os << ',';
		firstk = false;
		os << '"' << name << "\":";
		if(!ok) { os << "{\"abort\":" << guard::last_json() << "}"; }
		else if(alt == br) { os << "true"; }
		else { jlist(os, alt); }
	};
	path("iter", [&](auto& x) { collect_it(v, x); });
	path("rangefor", [&](auto& x) { collect_rangefor(v, x); });
	path("call", [&](auto& x) { collect_call<D>(v, v, x); });
	path("apply", [&](auto& x) { collect_apply<D>(v, v, x); });
	path("cursor", [&](auto& x) { collect_cursor(v.home(), sz, x); });
	path("elems_idx", [&](auto& x) { auto&& es = v.elements(); for(multi::size_t k = 0; k != es.size(); ++k) { x.push_back(cellno(es[k])); } });
	path("elems_iter", [&](auto& x) { for(auto&& e : v.elements()) { x.push_back(cellno(e)); } });
	path("front_back", [&](auto& x) { x = br; if(cellno(v.elements().front()) != br.front()) { x.front() = cellno(v.elements().front()); } if(cellno(v.elements().back()) != br.back()) { x.back() = cellno(v.elements().back()); } });
	// elements_at(k): the k-th element in canonical order (a positional access path, like elements()[k])
	path("elements_at", [&](auto& x) { for(long k = 0; k != ne; ++k) { x.push_back(cellno(v.elements_at(k))); } });
	os << '}';
	{
		long es = -1;
		guard::run([&] { es = static_cast<long>(v.elements().size()); });
		os << ",\"esize\":" << es;
	}
}

template<int D> void run_program(long id, view_program const& p) {
	multi::array<T, D, verif_alloc<T>> root(make_ext<D>(p.sizes, p.firsts, std::make_index_sequence<D>{}));
	{
		T k = 0;
		for(auto& e : root.elements()) { e = k++; }
	}
	{ using vptr::raw; g_root = raw(root.data_elements()); }
	vptr::events().reset();
	g_root_n = static_cast<long>(root.num_elements());
	any_view cur;
	put<D>(cur, norm(root()));
	std::ostringstream os;
	os << "{\"id\":" << id;
	std::string status;
	std::size_t done = 0;
	if(!p.ops.empty() && p.ops.front().on_array) {
		// the first operation is applied to the owning array itself (its own overloads), the rest to the resulting views
		any_view next;
		bool fin = true;
		try { fin = guard::run([&] { apply_op_on<D>(root, p.ops.front(), next); }); status = fin ? "ok" : "abort"; }
		catch(unsupported const& u) { status = "unsupported:" + u.why; }
		if(status == "ok") {
			std::visit([&](auto& nv) {
				using V = std::decay_t<decltype(nv)>;
				if constexpr(std::is_same_v<V, std::monostate>) { status = "unsupported:no result"; }
				else if constexpr(std::is_same_v<V, elem0>) { cur.template emplace<elem0>(nv); }
				else { cur.template emplace<V>(std::move(nv)); }
			}, next);
			if(status == "ok") { done = 1 + run_ops(cur, std::vector<op_t>(p.ops.begin() + 1, p.ops.end()), status); }
		}
	} else {
		done = run_ops(cur, p.ops, status);
	}
	if(status == "abort") {
		os << ",\"st\":\"abort\",\"at\":" << done << ",\"abort\":" << guard::last_json();
	} else if(status != "ok") {
		os << ",\"st\":\"unsupported\",\"why\":\"" << status << "\",\"at\":" << done;
	} else {
		os << ",\"st\":\"ok\",";
		bool fin = guard::run([&] {
			std::visit([&](auto& v) {
				using V = std::decay_t<decltype(v)>;
				if constexpr(std::is_same_v<V, std::monostate>) { os << "\"D\":-1"; }
				else if constexpr(std::is_same_v<V, elem0>) { os << "\"D\":0,\"sizes\":[],\"ne\":1,\"cells\":[" << cellno(v.p) << "]"; }
				else { observe<V::rank_v>(v, os); }
			}, cur);
		});
		if(!fin) { os << ",\"obs_abort\":" << guard::last_json(); }
	}
#if VERIF_PTR_KIND == 2
	os << ",\"ptr_events\":" << vptr::events().total();
	if(vptr::events().total() != 0) { os << ",\"ptr_first\":\"" << vptr::events().first << "\""; }
#endif
	os << "}\n";
	std::cout << os.str() << std::flush;
}

int main() {
	guard::install();
	std::ios::sync_with_stdio(false);
	std::string line;
	while(std::getline(std::cin, line)) {
		if(line.empty() || line[0] != 'P') { continue; }
		std::istringstream is(line);
		std::string tag; long id = 0;
		is >> tag >> id;
		view_program p = parse_view_program(is);
		guard::context() = id;
		switch(p.D) {
			case 1: run_program<1>(id, p); break;
			case 2: run_program<2>(id, p); break;
			case 3: run_program<3>(id, p); break;
			case 4: run_program<4>(id, p); break;
			default: std::cout << "{\"id\":" << id << ",\"st\":\"unsupported\",\"why\":\"root D\"}\n";
		}
	}
	return 0;
}
