// Replayer for view programs (properties C01, C19, C20, C11).
// Reads programs (one per line) from stdin, executes them on the real library and
// prints one ndjson line of OBSERVATIONS per program. It contains no expected values.
//
// input line:  P <id> <D> <size_1..D> <first_1..D> <nops> { <opname> <nargs> <args...> }
// output line: {"id":..,"st":"ok","D":..,"sizes":[..],"ext":[[f,l]..],"ne":..,"empty":..,
//               "size":..,"strides":[..],"cells":[..],"agree":{..},"lay":[[s,o,n]..],"base":..}
#include "guard.hpp"

#include <boost/multi/array.hpp>

#include <cstdio>
#include <cstdlib>
#include <iostream>
#include <sstream>
#include <string>
#include <tuple>
#include <variant>
#include <vector>

#ifndef VERIF_ELEM
#define VERIF_ELEM long
#endif

namespace multi = boost::multi;
using T = VERIF_ELEM;
constexpr int MAXD = 5;

template<int D> using view_t = multi::subarray<T, D>;
struct elem0 { T* p; };  // zero-dimensional result: one element
using any_view = std::variant<std::monostate, elem0, view_t<1>, view_t<2>, view_t<3>, view_t<4>, view_t<5>>;

struct op_t { std::string name; std::vector<long> a; };

static T* g_root = nullptr;  // data_elements() of the root
static long g_root_n = 0;

template<class R> auto norm(R&& r) {
	using RR = std::decay_t<R>;
	constexpr int DD = RR::rank_v;
	return view_t<DD>(r.layout(), const_cast<T*>(r.base()));
}

struct unsupported { std::string why; };

template<int D> void put(any_view& v, view_t<D>&& nv) { v.template emplace<view_t<D>>(std::move(nv)); }

// call syntax with a mix of index / range / all arguments
template<int D, class... As>
void paren_rec(view_t<D>& cur, std::vector<long> const& a, std::size_t pos, any_view& out, As... as) {
	if(pos * 3 == a.size()) {
		if constexpr(sizeof...(As) == 0) {
			put<D>(out, norm(cur()));
		} else {
			using R = decltype(cur(as...));
			if constexpr(std::is_reference_v<R> || std::is_arithmetic_v<std::decay_t<R>>) {
				T const& r = cur(as...);
				out.template emplace<elem0>(elem0{const_cast<T*>(&r)});
			} else {
				auto&& r = cur(as...);
				constexpr int DD = std::decay_t<decltype(r)>::rank_v;
				put<DD>(out, norm(r));
			}
		}
		return;
	}
	if constexpr(sizeof...(As) < static_cast<std::size_t>(D) && sizeof...(As) < 4) {
		long k = a[pos * 3], x = a[pos * 3 + 1], y = a[pos * 3 + 2];
		if(k == 0) { paren_rec<D>(cur, a, pos + 1, out, as..., static_cast<multi::index>(x)); }
		else if(k == 1) { paren_rec<D>(cur, a, pos + 1, out, as..., multi::irange(x, y)); }
		else { paren_rec<D>(cur, a, pos + 1, out, as..., multi::_); }
	} else {
		throw unsupported{"paren arity"};
	}
}

template<int D>
void apply_op(view_t<D>& cur, op_t const& o, any_view& out) {
	auto const& n = o.name;
	auto const& a = o.a;
	if(n == "index") {
		if constexpr(D == 1) { out.template emplace<elem0>(elem0{&cur[a[0]]}); }
		else { put<D - 1>(out, norm(cur[a[0]])); }
	} else if(n == "sliced")     { put<D>(out, norm(cur.sliced(a[0], a[1])));
	} else if(n == "blocked")    { put<D>(out, norm(cur.blocked(a[0], a[1])));
	} else if(n == "strided")    { put<D>(out, norm(cur.strided(a[0])));
	} else if(n == "dropped")    { put<D>(out, norm(cur.dropped(a[0])));
	} else if(n == "taked")      { put<D>(out, norm(cur.taked(a[0])));
	} else if(n == "rotated")    { put<D>(out, norm(cur.rotated()));
	} else if(n == "unrotated")  { put<D>(out, norm(cur.unrotated()));
	} else if(n == "reversed")   { put<D>(out, norm(cur.reversed()));
	} else if(n == "reindexed")  {
		if(a.size() == 1) { put<D>(out, norm(cur.reindexed(a[0]))); }
		else if constexpr(D >= 2) { if(a.size() == 2) { put<D>(out, norm(cur.reindexed(a[0], a[1]))); } else { throw unsupported{"reindexed arity"}; } }
		else { throw unsupported{"reindexed arity"}; }
	} else if(n == "transposed") {
		if constexpr(D >= 2) { put<D>(out, norm(cur.transposed())); } else { throw unsupported{"transposed D<2"}; }
	} else if(n == "diagonal") {
		if constexpr(D >= 2) { put<D - 1>(out, norm(cur.diagonal())); } else { throw unsupported{"diagonal D<2"}; }
	} else if(n == "flatted") {
		if constexpr(D >= 2) {
#pragma GCC diagnostic push
#pragma GCC diagnostic ignored "-Wdeprecated-declarations"
			if(!cur.is_flattable()) { throw unsupported{"not flattable"}; }
#pragma GCC diagnostic pop
			put<D - 1>(out, norm(cur.flatted()));
		} else { throw unsupported{"flatted D<2"}; }
	} else if(n == "partitioned") {
		if constexpr(D < MAXD) { put<D + 1>(out, norm(cur.partitioned(a[0]))); } else { throw unsupported{"dim"}; }
	} else if(n == "chunked") {
		if constexpr(D < MAXD) { put<D + 1>(out, norm(cur.chunked(a[0]))); } else { throw unsupported{"dim"}; }
	} else if(n == "broadcast") {
		if constexpr(D < MAXD) { put<D>(out, norm(cur.broadcasted()[a[0]])); } else { throw unsupported{"dim"}; }
	} else if(n == "paren") {
		paren_rec<D>(cur, a, 0, out);
	} else {
		throw unsupported{"unknown op " + n};
	}
}

static void jlist(std::ostream& os, std::vector<long> const& v) {
	os << '[';
	for(std::size_t i = 0; i != v.size(); ++i) { if(i) os << ','; os << v[i]; }
	os << ']';
}

static long cellno(T const* p) { return static_cast<long>(p - g_root); }
static long cellno(T const& r) { return cellno(&r); }

// --- access paths -----------------------------------------------------------------------
template<class V> void collect_br(V const& v, std::vector<long>& out) {  // chained brackets
	constexpr int D = V::rank_v;
	for(auto i : v.extension()) {
		if constexpr(D == 1) { out.push_back(cellno(v[i])); } else { collect_br(v[i], out); }
	}
}
template<class V> void collect_it(V const& v, std::vector<long>& out) {  // *(begin()+k), k = 0..size
	constexpr int D = V::rank_v;
	for(multi::size_t k = 0; k != v.size(); ++k) {
		if constexpr(D == 1) { out.push_back(cellno(*(v.begin() + k))); } else { collect_it(*(v.begin() + k), out); }
	}
}
template<class V> void collect_rangefor(V const& v, std::vector<long>& out) {  // for(auto&& r : v)
	constexpr int D = V::rank_v;
	for(auto&& r : v) {
		if constexpr(D == 1) { out.push_back(cellno(r)); } else { collect_rangefor(r, out); }
	}
}
template<int D, class V, class... Is> void collect_call(V const& v, view_t<D> const& top, std::vector<long>& out, Is... is) {
	// enumerate index tuples through the extensions of the sub-views, access with top(i,j,k) and top.apply(tuple)
	if constexpr(sizeof...(Is) == D) {
		out.push_back(cellno(top(is...)));
	} else {
		for(auto i : v.extension()) {
			if constexpr(V::rank_v == 1) { collect_call<D>(v, top, out, is..., i); }
			else { collect_call<D>(v[i], top, out, is..., i); }
		}
	}
}
template<int D, class V, class... Is> void collect_apply(V const& v, view_t<D> const& top, std::vector<long>& out, Is... is) {
	if constexpr(sizeof...(Is) == D) {
		out.push_back(cellno(top.apply(std::make_tuple(is...))));
	} else {
		for(auto i : v.extension()) {
			if constexpr(V::rank_v == 1) { collect_apply<D>(v, top, out, is..., i); }
			else { collect_apply<D>(v[i], top, out, is..., i); }
		}
	}
}
template<class C, class Sizes, std::size_t K = 0> void collect_cursor(C cur, Sizes const& sz, std::vector<long>& out) {
	constexpr std::size_t D = std::tuple_size_v<Sizes>;
	for(long p = 0; p != sz[K]; ++p) {
		if constexpr(K + 1 == D) { out.push_back(cellno(cur[p])); }
		else { collect_cursor<decltype(cur[p]), Sizes, K + 1>(cur[p], sz, out); }
	}
}

template<class Tup, std::size_t... K> void tup_vec(Tup const& t, std::vector<long>& out, std::index_sequence<K...> /*unused*/) {
	using boost::multi::detail::get;
	(out.push_back(static_cast<long>(get<K>(t))), ...);
}
template<class Tup, std::size_t... K> void ext_vec(Tup const& t, std::vector<long>& f, std::vector<long>& l, std::index_sequence<K...> /*unused*/) {
	using boost::multi::detail::get;
	(f.push_back(static_cast<long>(get<K>(t).first())), ...);
	(l.push_back(static_cast<long>(get<K>(t).last())), ...);
}

template<class L> void lay_vec(L const& l, std::vector<long>& o, std::vector<long>& n) {
	if constexpr(L::rank_v >= 1) {
		o.push_back(static_cast<long>(l.offset()));
		n.push_back(static_cast<long>(l.nelems()));
		lay_vec(l.sub(), o, n);
	}
}

template<int D> void observe(view_t<D> const& v, std::ostream& os) {
	using std::get;
	std::vector<long> sizes, strides;
	std::array<long, D> sz{};
	tup_vec(v.sizes(), sizes, std::make_index_sequence<D>{});
	tup_vec(v.strides(), strides, std::make_index_sequence<D>{});
	for(std::size_t k = 0; k != static_cast<std::size_t>(D); ++k) { sz[k] = sizes[k]; }
	long ne = static_cast<long>(v.num_elements());
	os << "\"D\":" << D << ",\"sizes\":"; jlist(os, sizes);
	os << ",\"ne\":" << ne << ",\"empty\":" << (v.is_empty() ? "true" : "false") << ",\"size\":" << static_cast<long>(v.size());
	os << ",\"strides\":"; jlist(os, strides);
	// layout numbers (drift mode only)
	{
		std::vector<long> o, n;
		lay_vec(v.layout(), o, n);
		os << ",\"lay\":[";
		for(std::size_t d = 0; d != static_cast<std::size_t>(D); ++d) { if(d) os << ','; os << '[' << strides[d] << ',' << o[d] << ',' << n[d] << ']'; }
		os << "],\"base\":" << cellno(v.base());
	}
	if(ne == 0) { os << ",\"cells\":[]"; return; }
	// extensions (only meaningful for non-empty views)
	{
		os << ",\"ext\":[";
		std::vector<long> xf, xl;
		ext_vec(v.extensions().base(), xf, xl, std::make_index_sequence<D>{});
		for(std::size_t k = 0; k != xf.size(); ++k) { os << (k ? "," : "") << '[' << xf[k] << ',' << xl[k] << ']'; }
		os << ']';
	}
	std::vector<long> br;
	if(!guard::run([&] { collect_br(v, br); })) { os << ",\"cells\":null,\"cells_abort\":" << guard::last_json(); return; }
	os << ",\"cells\":"; jlist(os, br);
	os << ",\"agree\":{";
	bool firstk = true;
	auto path = [&](char const* name, auto&& body) {
		std::vector<long> alt;
		bool ok = guard::run([&] { body(alt); });
		if(!firstk) os << ',';
		firstk = false;
		os << '"' << name << "\":";
		if(!ok) { os << "{\"abort\":" << guard::last_json() << "}"; }
		else if(alt == br) { os << "true"; }
		else { jlist(os, alt); }
	};
	path("iter", [&](auto& x) { collect_it(v, x); });
	path("rangefor", [&](auto& x) { collect_rangefor(v, x); });
	path("call", [&](auto& x) { collect_call<D>(v, v, x); });
	path("apply", [&](auto& x) { collect_apply<D>(v, v, x); });
	path("cursor", [&](auto& x) { collect_cursor(v.home(), sz, x); });
	path("elems_idx", [&](auto& x) { auto&& es = v.elements(); for(multi::size_t k = 0; k != es.size(); ++k) { x.push_back(cellno(es[k])); } });
	path("elems_iter", [&](auto& x) { for(auto&& e : v.elements()) { x.push_back(cellno(e)); } });
	path("front_back", [&](auto& x) { x = br; if(cellno(v.elements().front()) != br.front()) { x.front() = cellno(v.elements().front()); } if(cellno(v.elements().back()) != br.back()) { x.back() = cellno(v.elements().back()); } });
#ifdef VERIF_ELEMENTS_AT
	path("elements_at", [&](auto& x) { for(long k = 0; k != ne; ++k) { x.push_back(cellno(v.elements_at(k))); } });
#endif
	os << '}';
	{
		long es = -1;
		guard::run([&] { es = static_cast<long>(v.elements().size()); });
		os << ",\"esize\":" << es;
	}
}

template<int D, std::size_t... K>
auto make_ext(std::vector<long> const& sizes, std::vector<long> const& firsts, std::index_sequence<K...> /*unused*/) {
	return multi::extensions_t<D>{multi::iextension(firsts[K], firsts[K] + sizes[K])...};
}

template<int D> void run_program(long id, std::vector<long> const& sizes, std::vector<long> const& firsts, std::vector<op_t> const& ops) {
	// root with explicit index extensions
	multi::array<T, D> root(make_ext<D>(sizes, firsts, std::make_index_sequence<D>{}));
	{
		T k = 0;
		for(auto& e : root.elements()) { e = k++; }
	}
	g_root = root.data_elements();
	g_root_n = static_cast<long>(root.num_elements());
	any_view cur;
	put<D>(cur, norm(root()));
	std::ostringstream os;
	os << "{\"id\":" << id;
	std::size_t done = 0;
	try {
		for(auto const& o : ops) {
			any_view next;
			bool fin = guard::run([&] {
			std::visit([&](auto& v) {
				using V = std::decay_t<decltype(v)>;
				if constexpr(std::is_same_v<V, std::monostate> || std::is_same_v<V, elem0>) { throw unsupported{"op on element"}; }
				else { apply_op<V::rank_v>(v, o, next); }
			}, cur);
			});
			if(!fin) {
				os << ",\"st\":\"abort\",\"at\":" << done << ",\"abort\":" << guard::last_json() << "}\n";
				std::cout << os.str();
				return;
			}
			// re-seat (assignment of views is deep)
			std::visit([&](auto& nv) {
				using V = std::decay_t<decltype(nv)>;
				if constexpr(std::is_same_v<V, std::monostate>) { throw unsupported{"no result"}; }
				else if constexpr(std::is_same_v<V, elem0>) { cur.template emplace<elem0>(nv); }
				else { cur.template emplace<V>(std::move(nv)); }
			}, next);
			++done;
		}
		os << ",\"st\":\"ok\",";
		bool fin = guard::run([&] {
		std::visit([&](auto& v) {
			using V = std::decay_t<decltype(v)>;
			if constexpr(std::is_same_v<V, std::monostate>) { os << "\"D\":-1"; }
			else if constexpr(std::is_same_v<V, elem0>) { os << "\"D\":0,\"sizes\":[],\"ne\":1,\"cells\":[" << cellno(v.p) << "]"; }
			else { observe<V::rank_v>(v, os); }
		}, cur);
		});
		if(!fin) { os << ",\"obs_abort\":" << guard::last_json(); }
	} catch(unsupported const& u) {
		os << ",\"st\":\"unsupported\",\"why\":\"" << u.why << "\",\"at\":" << done;
	}
	os << "}\n";
	std::cout << os.str();
}

int main() {
	guard::install();
	std::ios::sync_with_stdio(false);
	std::string line;
	while(std::getline(std::cin, line)) {
		if(line.empty() || line[0] != 'P') { continue; }
		std::istringstream is(line);
		std::string tag; long id; int D;
		is >> tag >> id >> D;
		std::vector<long> sizes(static_cast<std::size_t>(D)), firsts(static_cast<std::size_t>(D));
		for(auto& s : sizes) { is >> s; }
		for(auto& f : firsts) { is >> f; }
		std::size_t nops; is >> nops;
		std::vector<op_t> ops(nops);
		for(auto& o : ops) {
			std::size_t na; is >> o.name >> na;
			o.a.resize(na);
			for(auto& x : o.a) { is >> x; }
		}
		guard::context() = id;
		switch(D) {
			case 1: run_program<1>(id, sizes, firsts, ops); break;
			case 2: run_program<2>(id, sizes, firsts, ops); break;
			case 3: run_program<3>(id, sizes, firsts, ops); break;
			case 4: run_program<4>(id, sizes, firsts, ops); break;
			default: std::cout << "{\"id\":" << id << ",\"st\":\"unsupported\",\"why\":\"root D\"}\n";
		}
	}
	return 0;
}
