# setup: parse every specification with SANY (nothing that depends on /repo is pre-built:
# every check rebuilds its replayers from the current working tree)
SPECS := $(addprefix specs/,$(shell cat specs/SPECS.list))
setup:
	@mkdir -p build evidence replays
	@fail=0; for s in $(SPECS); do \
	  out=$$(cd specs && java -cp /opt/veriftools/tla/tla2tools.jar:/opt/veriftools/tla/CommunityModules-deps.jar tla2sany.SANY $$(basename $$s) 2>&1); \
	  if echo "$$out" | grep -q -E "\*\*\* Errors|Fatal errors|Could not parse|Parsing or semantic analysis failed"; then echo "SANY FAILED $$s"; echo "$$out" | tail -20; fail=1; fi; \
	done; exit $$fail
	@echo setup ok
.PHONY: setup
