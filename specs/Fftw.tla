-------------------------------- MODULE Fftw --------------------------------
(***************************************************************************)
(* Property C15: a DFT through the FFTW adaptor over a chosen subset of    *)
(* the dimensions of an input and an output view of equal extents equals   *)
(* the direct evaluation of the unnormalised discrete Fourier transform    *)
(* with the requested sign along exactly those dimensions (the other       *)
(* dimensions are independent batches) on the LOGICAL contents of the      *)
(* views, whatever their strides; a distinct input is left unchanged; only *)
(* elements of the output view are written; forward followed by backward   *)
(* multiplies every element by the number of transformed points.           *)
(*                                                                         *)
(* Trace monitor (direction V).  Each line of the trace is one call of the *)
(* adaptor recorded by harness/replay_fftw.cpp:                            *)
(*   sh     logical sizes of both views          which  0/1 per dimension  *)
(*   sign   -1 forward (exp(-2 pi i jk/n)), +1 backward                    *)
(*   icells / ocells   for every logical position, in canonical (row-major)*)
(*          order, the store cell the input / output view designates there *)
(*          (observed through the view's own operator[])                   *)
(*   pre, post (and mid for mode "round")   the WHOLE store (both buffers  *)
(*          with their guard cells), flat <<re0, im0, re1, im1, ...>>, in   *)
(*          fixed point with scale 256                                     *)
(*   wild   number of changed cells in the unlogged slack around the store *)
(*   mem    what multi::fftw::allocator asked from fftw_malloc / fftw_free *)
(*          for the store (see MemOK)                                      *)
(*   ev     the intercepted FFTW guru calls (code-shaped, drift only; see  *)
(*          GuruOK at the end of the module)                               *)
(* Complex numbers are pairs of integers.  Twiddle factors are integer     *)
(* constants with scale 1024; for transformed lengths in {1, 2, 4} they    *)
(* are exact (1, -i, -1, i) and the comparison is an equality; for lengths *)
(* 3, 5, 6 the comparison allows 2^-6 of the 1-norm of the transformed     *)
(* line (far above rounding, far below the O(1) effect of a wrong stride,  *)
(* sign, dimension or base).                                               *)
(***************************************************************************)
EXTENDS MultiSem, TLC, Json, IOUtils

Trace == ndJsonDeserialize(IOEnv.TRACE)

VARIABLE l
R == Trace[l]

SC == 256      \* scale of the logged values (documentation; the arithmetic below never needs it)
TW == 1024     \* scale of the twiddle factors

-----------------------------------------------------------------------------
(* complex arithmetic on pairs *)
RoundDiv(a, b) == (a + b \div 2) \div b                 \* b > 0; \div is the floor
CAdd(a, b)  == <<a[1] + b[1], a[2] + b[2]>>
CMulT(a, b) == <<RoundDiv(a[1] * b[1] - a[2] * b[2], TW), RoundDiv(a[1] * b[2] + a[2] * b[1], TW)>>   \* b (or a) has scale TW
CConj(a)    == <<a[1], 0 - a[2]>>
Abs(x)      == IF x < 0 THEN 0 - x ELSE x
Norm1(a)    == Abs(a[1]) + Abs(a[2])

(* exp(-2 pi i k / n) * 1024 for n in 1..6, k in 0..n-1  (position k + 1) *)
TwTab == <<
  << <<1024, 0>> >>,
  << <<1024, 0>>, <<-1024, 0>> >>,
  << <<1024, 0>>, <<-512, -887>>, <<-512, 887>> >>,
  << <<1024, 0>>, <<0, -1024>>, <<-1024, 0>>, <<0, 1024>> >>,
  << <<1024, 0>>, <<316, -974>>, <<-828, -602>>, <<-828, 602>>, <<316, 974>> >>,
  << <<1024, 0>>, <<512, -887>>, <<-512, -887>>, <<-1024, 0>>, <<-512, 887>>, <<512, 887>> >> >>
ExactLengths == {1, 2, 4}

(* the factor of one transformed dimension of length n for the index product jk, with the given sign *)
Tw(n, jk, sg) == LET w == TwTab[n][(jk % n) + 1] IN IF sg = -1 THEN w ELSE CConj(w)

RECURSIVE CSumTo(_, _)
CSumTo(f, n) == IF n = 0 THEN <<0, 0>> ELSE CAdd(CSumTo(f, n - 1), f[n])
RECURSIVE SumTo(_, _)
SumTo(f, n) == IF n = 0 THEN 0 ELSE SumTo(f, n - 1) + f[n]

-----------------------------------------------------------------------------
(* the requirement: the unnormalised DFT along the dimensions selected by `which` *)

(* sh: sizes; which: 0/1 per dimension; sg: sign; X: sequence of pairs, the logical contents in row-major order. *)
(* Y[t] = SUM over all s that agree with t in the untransformed dimensions of                                  *)
(*        X[s] * PRODUCT over transformed d of exp(sg * 2 pi i * s[d] * t[d] / sh[d])                          *)
SameBatch(which, s, t) == \A d \in 1..Len(which) : which[d] = 0 => s[d] = t[d]

RECURSIVE Kernel(_, _, _, _, _, _)
Kernel(sh, which, sg, s, t, d) ==
  IF d = 0 THEN <<TW, 0>>
  ELSE IF which[d] = 0 THEN Kernel(sh, which, sg, s, t, d - 1)
  ELSE CMulT(Kernel(sh, which, sg, s, t, d - 1), Tw(sh[d], s[d] * t[d], sg))

DftAt(sh, which, sg, X, Tp, i) ==
  LET N == Len(X)
      terms == [j \in 1..N |-> IF SameBatch(which, Tp[j], Tp[i])
                               THEN CMulT(X[j], Kernel(sh, which, sg, Tp[j], Tp[i], Len(sh)))
                               ELSE <<0, 0>>]
  IN CSumTo(terms, N)

(* 1-norm of the line (batch) of position i: the quantity the tolerance is relative to *)
LineNorm(which, X, Tp, i) ==
  SumTo([j \in 1..Len(X) |-> IF SameBatch(which, Tp[j], Tp[i]) THEN Norm1(X[j]) ELSE 0], Len(X))

NPoints(sh, which) == Prod([d \in 1..Len(sh) |-> IF which[d] = 1 THEN sh[d] ELSE 1])
Exact(sh, which)   == \A d \in 1..Len(sh) : which[d] = 1 => sh[d] \in ExactLengths
Supported(sh, which) == \A d \in 1..Len(sh) : which[d] = 1 => sh[d] \in 1..Len(TwTab)

Close(a, b, tol) == Abs(a[1] - b[1]) <= tol /\ Abs(a[2] - b[2]) <= tol

-----------------------------------------------------------------------------
(* one call: store `pre` -> store `post`, input view cells ic, output view cells oc *)

CellAt(st, c) == <<st[2 * c + 1], st[2 * c + 2]>>
NCells(st) == Len(st) \div 2

(* <<verdict, where, expected, got>>: verdict "ok" or the name of the violated clause *)
CallVerdict(sh, which, sg, pre, post, ic, oc) ==
  LET N    == Len(ic)
      Tp   == TLCEval([i \in 1..N |-> FromLinear(i - 1, sh)])
      X    == TLCEval([i \in 1..N |-> CellAt(pre, ic[i])])
      ex   == Exact(sh, which)
      E    == TLCEval([i \in 1..N |-> DftAt(sh, which, sg, X, Tp, i)])
      Tol(i) == IF ex THEN 0 ELSE LineNorm(which, X, Tp, i) \div 64 + 4
      BadV == {i \in 1..N : ~Close(E[i], CellAt(post, oc[i]), Tol(i))}
      OutSet == {oc[i] : i \in 1..N}
      InSet  == {ic[i] : i \in 1..N}
      Moved  == {c \in 0..(NCells(pre) - 1) : c \notin OutSet /\ CellAt(post, c) # CellAt(pre, c)}
  IN IF Len(post) # Len(pre) \/ Len(oc) # N \/ N # Prod(sh) THEN <<"malformed record", 0, <<0, 0>>, <<0, 0>>>>
     ELSE IF BadV # {} THEN LET i == CHOOSE i \in BadV : \A j \in BadV : i <= j
                            IN <<"out = Dft(which, sign, in)", i - 1, E[i], CellAt(post, oc[i])>>
     ELSE IF Moved \cap InSet # {} THEN LET c == CHOOSE c \in Moved \cap InSet : TRUE
                                        IN <<"distinct input unchanged", c, CellAt(pre, c), CellAt(post, c)>>
     ELSE IF Moved # {} THEN LET c == CHOOSE c \in Moved : TRUE
                             IN <<"only output-view cells written", c, CellAt(pre, c), CellAt(post, c)>>
     ELSE <<"ok", 0, <<0, 0>>, <<0, 0>>>>

(* forward followed by backward: every element of the view is multiplied by the number of transformed points *)
RoundTripVerdict(sh, which, pre, post, ic) ==
  LET N  == Len(ic)
      Tp == TLCEval([i \in 1..N |-> FromLinear(i - 1, sh)])
      X  == TLCEval([i \in 1..N |-> CellAt(pre, ic[i])])
      np == NPoints(sh, which)
      ex == Exact(sh, which)
      Tol(i) == IF ex THEN 0 ELSE (np * LineNorm(which, X, Tp, i)) \div 64 + 4
      Bad == {i \in 1..N : ~Close(<<np * X[i][1], np * X[i][2]>>, CellAt(post, ic[i]), Tol(i))}
  IN IF Bad # {} THEN LET i == CHOOSE i \in Bad : \A j \in Bad : i <= j
                      IN <<"backward(forward(x)) = N x", i - 1, <<np * X[i][1], np * X[i][2]>>, CellAt(post, ic[i])>>
     ELSE <<"ok", 0, <<0, 0>>, <<0, 0>>>>

FirstBad(vs) == IF \E k \in 1..Len(vs) : vs[k][1] # "ok"
                THEN LET k == CHOOSE k \in 1..Len(vs) : vs[k][1] # "ok" /\ \A j \in 1..(k - 1) : vs[j][1] = "ok"
                     IN <<vs[k][1], k, vs[k][2], vs[k][3], vs[k][4]>>
                ELSE <<"ok", 0, 0, <<0, 0>>, <<0, 0>>>>

(* the store of every case comes from multi::fftw::allocator<complex>::allocate(n) (adaptors/fftw/memory.hpp);  *)
(* R.mem = <<n, calls of fftw_malloc, bytes requested, calls of fftw_free, frees of pointers that are not live>>. *)
(* Demanded: what was obtained from FFTW is large enough for n complex numbers, nothing is released twice.       *)
ElemBytes == 16
MemOK == \/ "mem" \notin DOMAIN R
         \/ /\ (R.mem[2] >= 1 => R.mem[3] >= ElemBytes * R.mem[1])
            /\ R.mem[5] = 0
(* drift only: exactly one fftw_malloc and one fftw_free per allocate/deallocate pair *)
MemShape == "mem" \notin DOMAIN R \/ (R.mem[2] = 1 /\ R.mem[4] = 1)

(* modes: "round" = forward in -> out, then backward out -> in; every other mode is a single call *)
Verdict ==
  IF ~Supported(R.sh, R.which) \/ R.sign \notin {-1, 1} THEN <<"unsupported length or sign", 0, 0, <<0, 0>>, <<0, 0>>>>
  ELSE IF ~MemOK THEN <<"storage from fftw::allocator holds the requested elements and is released at most once", 0, 0, <<0, 0>>, <<R.mem[3], R.mem[5]>>>>
  ELSE IF R.wild # 0 THEN <<"only output-view cells written", 0, -1, <<0, 0>>, <<R.wild, 0>>>>   \* cells beyond the logged store changed
  ELSE IF R.mode = "round"
  THEN FirstBad(<<CallVerdict(R.sh, R.which, -1, R.pre, R.mid, R.icells, R.ocells),
                  CallVerdict(R.sh, R.which, 1, R.mid, R.post, R.ocells, R.icells),
                  RoundTripVerdict(R.sh, R.which, R.pre, R.post, R.icells)>>)
  ELSE FirstBad(<<CallVerdict(R.sh, R.which, R.sign, R.pre, R.post, R.icells, R.ocells)>>)

-----------------------------------------------------------------------------
(* Code-shaped observation -- DRIFT ONLY, never a verdict about C15.  When the replayer is linked with  *)
(* the interposer, R.ev lists the intercepted FFTW calls of the adaptor call.  The current code makes,  *)
(* per transform, one fftw_plan_guru64_dft whose `dims` are the (size, input stride, output stride) of  *)
(* the dimensions in `which`, whose `howmany_dims` are the others, on the views' bases, with the        *)
(* requested sign and FFTW_PRESERVE_INPUT, executes it once on those bases and destroys it once.        *)
(* Strides are semantic (cell distance of neighbouring positions) and ignored for sizes < 2.            *)
Count(s, x) == Cardinality({k \in 1..Len(s) : s[k] = x})
BagEq(s, t) == Len(s) = Len(t) /\ \A k \in 1..Len(s) : Count(s, s[k]) = Count(t, s[k])
UnitIdx(sh, d) == 1 + Prod(SubSeq(sh, d + 1, Len(sh)))
StrideOf(cells, sh, d) == IF sh[d] < 2 THEN 0 ELSE cells[UnitIdx(sh, d)] - cells[1]
NormDim(x) == IF x[1] < 2 THEN <<x[1], 0, 0>> ELSE <<x[1], x[2], x[3]>>
DimsOf(sh, which, ic, oc, b) ==
  LET idx == SelectSeq([d \in 1..Len(sh) |-> d], LAMBDA d : which[d] = b)
  IN [k \in 1..Len(idx) |-> NormDim(<<sh[idx[k]], StrideOf(ic, sh, idx[k]), StrideOf(oc, sh, idx[k])>>)]
PreserveInput == 16
GuruCall(e, sh, which, sg, ic, oc) ==
  /\ Len(e) = 3
  /\ e[1].k = "plan" /\ e[2].k = "exec" /\ e[3].k = "destroy"
  /\ e[1].null = 0 /\ e[2].p = e[1].p /\ e[3].p = e[1].p
  /\ e[1].sign = sg
  /\ (e[1].flags \div PreserveInput) % 2 = 1
  /\ e[1].in = ic[1] /\ e[1].out = oc[1] /\ e[2].in = ic[1] /\ e[2].out = oc[1]
  /\ BagEq([k \in 1..Len(e[1].dims) |-> NormDim(e[1].dims[k])], DimsOf(sh, which, ic, oc, 1))
  /\ BagEq([k \in 1..Len(e[1].hdims) |-> NormDim(e[1].hdims[k])], DimsOf(sh, which, ic, oc, 0))
GuruOK ==
  \/ "ev" \notin DOMAIN R
  \/ /\ R.lost = 0
     /\ IF R.mode = "round"
        THEN /\ Len(R.ev) = 6
             /\ GuruCall(SubSeq(R.ev, 1, 3), R.sh, R.which, -1, R.icells, R.ocells)
             /\ GuruCall(SubSeq(R.ev, 4, 6), R.sh, R.which, 1, R.ocells, R.icells)
        ELSE GuruCall(R.ev, R.sh, R.which, R.sign, R.icells, R.ocells)

MInit == l = 1
MStep ==
  /\ l <= Len(Trace)
  /\ l' = l + 1
  /\ LET v == Verdict IN
     \/ v[1] = "ok"
     \/ PrintT(ToJson([id |-> R.id, bad |-> v[1], step |-> v[2], at |-> v[3], expected |-> v[4], got |-> v[5]]))
  /\ (MemShape \/ PrintT(ToJson([id |-> R.id, drift |-> "fftw::allocator does not pair one fftw_malloc with one fftw_free", ev |-> R.mem])))
  /\ (GuruOK \/ PrintT(ToJson([id |-> R.id, drift |-> "FFTW guru calls differ from the code-shaped expectation", ev |-> R.ev])))
MSpec == MInit /\ [][MStep]_l
Consumed == TLCGet("stats").diameter - 1 = Len(Trace)
=============================================================================
