SPECIFICATION Spec
CONSTANTS
  MaxD = 3
  MaxExt = 3
  MaxDepth = 2
  MaxDim = 5
  Bases = {0}
  OpNames = {"index","sliced","strided","dropped","taked","rotated","unrotated","transposed","reversed","diagonal","partitioned","chunked","flatted","broadcast","paren"}
  ParenArgs = 3
  ParenLean = TRUE
  OneDimQuirk = TRUE
  Emit = TRUE
INVARIANTS Refines InBounds Affine TypeOK
VIEW VW
CONSTRAINT EmitC
CHECK_DEADLOCK FALSE
