----------------------------- MODULE Extensions -----------------------------
(***************************************************************************)
(* The index-extension algebra underneath every array and view             *)
(* (detail/index_range.hpp, detail/layout.hpp: range, extension_t,         *)
(* extensions_t<D>).  Not one of the listed properties by itself, but      *)
(* C01, C02, C06 and C19 all rest on it (which indices are valid, in which *)
(* order positions are visited, what two extensions have in common when an *)
(* array is re-extended).                                                  *)
(*                                                                         *)
(* An extensions value is a sequence of half-open index ranges             *)
(* [first, first + n).  The requirement, per operation:                    *)
(*   num_elements     the product of the sizes                             *)
(*   from_linear(k)   the zero-based POSITION tuple of the k-th element in *)
(*                    canonical order (last index fastest); to_linear is   *)
(*                    its inverse                                          *)
(*   next_canonical / prev_canonical   the odometer over INDEX tuples: the *)
(*                    successor (predecessor) in canonical order, wrapping *)
(*                    around with a carry at the end (beginning)           *)
(*   intersection     dimension by dimension, the common indices (a range  *)
(*                    without indices when there are none)                 *)
(*   contains(t)      every index of t lies in its range                   *)
(*   ==               the same indices in every dimension (ranges without  *)
(*                    indices are all equal)                               *)
(* and for one range: size, front, back, is_empty, contains, find,         *)
(* indexing r[k], and the sequence visited by begin()..end().              *)
(* TLC enumerates every pair (x, y) within the bounds and prints the       *)
(* prescribed results; harness/replay_extensions.cpp evaluates the real    *)
(* operations.                                                             *)
(***************************************************************************)
EXTENDS Integers, Sequences, FiniteSets, TLC, Json, MultiSem

CONSTANTS XD,        \* dimensionality
          XFirsts,   \* index bases of x
          XMaxN,     \* sizes 0..XMaxN of x
          YFirsts, YSizes,   \* the second operand (intersection, ==)
          XEmit

XFirstsMixed == {-1, 0, 2}
YFirstsMixed == {-2, 0, 1}

VARIABLES x, y
xvars == <<x, y>>

RECURSIVE SeqsOf(_, _)
SeqsOf(S, n) == IF n = 0 THEN {<<>>} ELSE {<<e>> \o s : e \in S, s \in SeqsOf(S, n - 1)}

Rng(f, n) == [f |-> f, n |-> n]
XS == SeqsOf({Rng(f, n) : f \in XFirsts, n \in 0..XMaxN}, XD)
YS == SeqsOf({Rng(f, n) : f \in YFirsts, n \in YSizes}, XD)

Sizes(e)  == [d \in 1..Len(e) |-> e[d].n]
Firsts(e) == [d \in 1..Len(e) |-> e[d].f]
NE(e)     == Prod(Sizes(e))

(* index tuple of the element at zero-based position k *)
IndexAt(e, k) == LET p == FromLinear(k, Sizes(e)) IN [d \in 1..Len(e) |-> e[d].f + p[d]]

XMax2(a, b) == IF a > b THEN a ELSE b
InterR(r, s) ==
  LET f == XMax2(r.f, s.f)  l == Min2(r.f + r.n, s.f + s.n) IN
  IF l > f THEN Rng(f, l - f) ELSE Rng(0, 0)      \* no common index: only the size (0) is prescribed
Inter(e, g) == [d \in 1..Len(e) |-> InterR(e[d], g[d])]

ContainsT(e, t) == \A d \in 1..Len(e) : e[d].f <= t[d] /\ t[d] < e[d].f + e[d].n

(* probe tuples: per dimension just outside and just inside both ends *)
ProbeVals(r) == {r.f - 1, r.f, r.f + r.n - 1, r.f + r.n}
RECURSIVE ProbeSeqs(_)
ProbeSeqs(e) == IF e = <<>> THEN {<<>>} ELSE {<<v>> \o s : v \in ProbeVals(Head(e)), s \in ProbeSeqs(Tail(e))}
RECURSIVE LeqT(_, _)
LeqT(a, b) == IF a = <<>> THEN TRUE ELSE IF Head(a) < Head(b) THEN TRUE ELSE IF Head(a) > Head(b) THEN FALSE ELSE LeqT(Tail(a), Tail(b))
RECURSIVE SetToSeq(_)
SetToSeq(S) == IF S = {} THEN <<>> ELSE LET m == CHOOSE a \in S : \A b \in S : LeqT(a, b) IN <<m>> \o SetToSeq(S \ {m})

B(v) == IF v THEN 1 ELSE 0

(* two ranges are equal when they hold the same indices: all ranges without indices are equal *)
RngEq(r, s) == (r.n = 0 /\ s.n = 0) \/ r = s

XInit == x \in XS /\ y \in YS
XNext == UNCHANGED xvars
XSpec == XInit /\ [][XNext]_xvars

(* design-level laws of the algebra *)
InterCommutes == \A d \in 1..XD : Inter(x, y)[d].n = Inter(y, x)[d].n
InterWithin   == \A d \in 1..XD : Inter(x, y)[d].n <= x[d].n /\ Inter(x, y)[d].n <= y[d].n
InterIdem     == \A d \in 1..XD : x[d].n > 0 => Inter(x, x)[d] = x[d]
LinearBijection == \A k \in 0..(NE(x) - 1) : ToLinear(FromLinear(k, Sizes(x)), Sizes(x)) = k

XExpect ==
  LET n == NE(x)
      probes == SetToSeq(ProbeSeqs(x))
  IN [D |-> XD, x |-> x, y |-> y, ne |-> n, sizes |-> Sizes(x),
      from_linear |-> [k \in 1..n |-> FromLinear(k - 1, Sizes(x))],
      \* the odometer: from the index tuple at position k-1 to the one at position k (mod n), with the carry flag
      next |-> [k \in 1..n |-> [to |-> IndexAt(x, k % n), carry |-> B(k = n)]],
      prev |-> [k \in 1..n |-> [to |-> IndexAt(x, (k - 2 + n) % n), carry |-> B(k = 1)]],
      inter_sizes |-> [d \in 1..XD |-> Inter(x, y)[d].n],
      inter_firsts |-> [d \in 1..XD |-> Inter(x, y)[d].f],
      eq |-> B(\A d \in 1..XD : RngEq(x[d], y[d])),
      probes |-> probes,
      contains |-> [i \in 1..Len(probes) |-> B(ContainsT(x, probes[i]))],
      \* the leading range by itself
      r_size |-> x[1].n, r_empty |-> B(x[1].n = 0),
      r_seq |-> [k \in 1..x[1].n |-> x[1].f + k - 1],
      r_find |-> [v \in 1..(x[1].n + 2) |-> LET val == x[1].f + v - 2 IN IF val >= x[1].f /\ val < x[1].f + x[1].n THEN val - x[1].f ELSE x[1].n]]
XEmitC == (~XEmit) \/ PrintT(ToJson(XExpect))
=============================================================================
