------------------------------ MODULE MpiTypes ------------------------------
(***************************************************************************)
(* Property C18: the (buffer, count, datatype) message built from          *)
(* view.elements() denotes exactly the view's elements in canonical order, *)
(* and the datatypes it creates are committed before use and freed exactly *)
(* once.                                                                   *)
(*                                                                         *)
(* Trace monitor (direction V).  The replayer interposes the MPI datatype  *)
(* constructors through the standard PMPI profiling interface and records  *)
(* every call; this module rebuilds the TYPE MAP (sequence of byte         *)
(* displacements, MPI-3.1 section 4.1) of every handle from the recorded   *)
(* constructor arguments and checks that the message's map, shifted by     *)
(* the buffer, equals the byte offsets of the cells that MultiSem           *)
(* prescribes for the view (carried in the record), and the life cycle     *)
(* created -> committed -> freed of every handle.                          *)
(***************************************************************************)
EXTENDS Integers, Sequences, FiniteSets, TLC, Json, IOUtils

Trace == ndJsonDeserialize(IOEnv.TRACE)

VARIABLES l, T, seg, skip
tvars == <<l, T, seg, skip>>
Ev == Trace[l]

(* handle 0 is the predefined element datatype (4 bytes) *)
Base == [map |-> <<0>>, ext |-> 4, committed |-> TRUE, freed |-> FALSE, builtin |-> TRUE]
Fresh == [h \in {0} |-> Base]

RECURSIVE Concat(_)
Concat(ss) == IF ss = <<>> THEN <<>> ELSE Head(ss) \o Concat(Tail(ss))
Shift(m, d) == [j \in 1..Len(m) |-> m[j] + d]

(* MPI_Type_create_hvector(count, blocklength, stride, old) *)
HvectorMap(cnt, bl, st, old) ==
  Concat([k \in 1..cnt |-> Concat([b \in 1..bl |-> Shift(old.map, (k - 1) * st + (b - 1) * old.ext)])])
HvectorExt(cnt, bl, st, old) == IF cnt = 0 THEN 0 ELSE (cnt - 1) * st + bl * old.ext
(* the elements a message (count, datatype) designates, relative to its buffer *)
MessageMap(cnt, t) == Concat([k \in 1..cnt |-> Shift(t.map, (k - 1) * t.ext)])

Usable(h) == h \in DOMAIN T /\ ~T[h].freed
Complain(rule) == PrintT(ToJson([bad |-> rule, line |-> l, seg |-> seg, op |-> Ev.op]))

Rule ==
  CASE Ev.op \in {"hvector", "resized", "dup"} -> IF ~Usable(Ev.old) THEN <<FALSE, "UseOfFreedOrUnknownType">>
                                                  ELSE IF Ev.new \in DOMAIN T THEN <<FALSE, "HandleNotFresh">> ELSE <<TRUE, "">>
    [] Ev.op = "commit" -> <<Usable(Ev.new), "CommitOfFreedOrUnknownType">>
    [] Ev.op = "free" -> IF Ev.new \notin DOMAIN T THEN <<FALSE, "FreeOfUnknownType">>
                         ELSE IF T[Ev.new].freed THEN <<FALSE, "FreedTwice">>
                         ELSE IF T[Ev.new].builtin THEN <<FALSE, "FreeOfPredefinedType">> ELSE <<TRUE, "">>
    [] Ev.op = "message" ->
         IF ~Usable(Ev.new) THEN <<FALSE, "MessageWithFreedOrUnknownType">>
         ELSE IF ~T[Ev.new].committed THEN <<FALSE, "UsedBeforeCommit">>
         ELSE IF Shift(MessageMap(Ev.count, T[Ev.new]), Ev.buf) # [k \in 1..Len(Ev.cells) |-> Ev.cells[k] * 4]
              THEN <<FALSE, "MessageDoesNotDenoteTheCanonicalElements">> ELSE <<TRUE, "">>
    [] Ev.op = "use" -> IF ~Usable(Ev.new) THEN <<FALSE, "UseOfFreedOrUnknownType">>
                        ELSE <<T[Ev.new].committed, "UsedBeforeCommit">>
    [] Ev.op = "end" -> <<\A h \in DOMAIN T : T[h].builtin \/ T[h].freed, "DatatypeLeaked">>
    [] OTHER -> <<TRUE, "">>

NewT ==
  CASE Ev.op = "hvector" -> [h \in DOMAIN T \cup {Ev.new} |-> IF h = Ev.new
                               THEN [map |-> HvectorMap(Ev.count, Ev.blocklen, Ev.stride, T[Ev.old]), ext |-> HvectorExt(Ev.count, Ev.blocklen, Ev.stride, T[Ev.old]),
                                     committed |-> FALSE, freed |-> FALSE, builtin |-> FALSE]
                               ELSE T[h]]
    [] Ev.op = "resized" -> [h \in DOMAIN T \cup {Ev.new} |-> IF h = Ev.new
                               THEN [map |-> T[Ev.old].map, ext |-> Ev.stride, committed |-> FALSE, freed |-> FALSE, builtin |-> FALSE] ELSE T[h]]
    [] Ev.op = "dup" -> [h \in DOMAIN T \cup {Ev.new} |-> IF h = Ev.new THEN [T[Ev.old] EXCEPT !.builtin = FALSE, !.freed = FALSE] ELSE T[h]]
    [] Ev.op = "commit" -> [T EXCEPT ![Ev.new].committed = TRUE]
    [] Ev.op = "free" -> [T EXCEPT ![Ev.new].freed = TRUE]
    [] OTHER -> T

TInit == l = 1 /\ T = Fresh /\ seg = -1 /\ skip = FALSE
TStep ==
  /\ l <= Len(Trace)
  /\ l' = l + 1
  /\ IF Ev.op = "reset" THEN T' = Fresh /\ seg' = Ev.new /\ skip' = FALSE
     ELSE IF skip THEN UNCHANGED <<T, seg, skip>>
     ELSE LET r == Rule IN
          IF r[1] THEN T' = NewT /\ UNCHANGED <<seg, skip>>
          ELSE Complain(r[2]) /\ skip' = TRUE /\ UNCHANGED <<T, seg>>
TSpec == TInit /\ [][TStep]_tvars
Consumed == TLCGet("stats").diameter - 1 = Len(Trace)
=============================================================================
