---------------------------- MODULE Serialization ----------------------------
(***************************************************************************)
(* Property C17: serialization round trip.                                 *)
(*                                                                         *)
(* An archive is a sequence of tokens.  Saving an array appends, per       *)
(* dimension, the first and last index of its extension, then the          *)
(* elements in canonical order; loading reads the extensions, gives the    *)
(* target those extensions whatever it held before, then reads the         *)
(* elements.  A view saves exactly its elements in canonical order and     *)
(* loads them back into exactly its own cells.                             *)
(* All cases within the bounds are initial states; TLC checks the round    *)
(* trip on the model and emits, per case, the prescribed token stream and  *)
(* the prescribed loaded value; the replayer performs the real round trip  *)
(* through text, binary and XML archives.                                  *)
(***************************************************************************)
EXTENDS Integers, Sequences, FiniteSets, TLC, Json, MultiSem

CONSTANTS SD, SMaxExt, SBases, Priors, SEmit

SBasesZero == {0}
SBasesMixed == {-1, 0, 2}

VARIABLES src, prior
svars == <<src, prior>>

RECURSIVE SSeqs(_, _)
SSeqs(S, n) == IF n = 0 THEN {<<>>} ELSE {<<x>> \o s : x \in S, s \in SSeqs(S, n - 1)}

(* element k (1-based, canonical order) of a saved array has the value 1000 + k *)
MkArr(sh, fi) == [shape |-> sh, first |-> fi, val |-> [k \in 1..Prod(sh) |-> 1000 + k]]
(* WIDE stands for an extent of 2^31 + 5 (TLC's integers are 32-bit: the driver substitutes the number).  Only arrays without  *)
(* elements carry it (a zero extent in another dimension): no storage is involved, only the extensions travel through the archive *)
WIDE == -1
WideArrays == IF SD < 2 THEN {} ELSE {MkArr([d \in 1..SD |-> IF d = 1 THEN 0 ELSE IF d = SD THEN WIDE ELSE 1], [d \in 1..SD |-> 0])}
Arrays == {MkArr(sh, fi) : sh \in SSeqs(0..SMaxExt, SD), fi \in SSeqs(SBases, SD)} \cup WideArrays

(* the target before loading: empty, same extents (other contents), same sizes shifted, same count reshaped, different extents *)
PriorOf(a, p) ==
  CASE p = "empty" -> [shape |-> [d \in 1..SD |-> 0], first |-> [d \in 1..SD |-> 0], val |-> <<>>]
    [] p = "same"  -> [a EXCEPT !.val = [k \in 1..Prod(a.shape) |-> 5000 + k]]
    \* the same sizes under another index base, and the same number of elements in another shape: states in which an
    \* implementation that keeps its storage must still adopt the saved extensions
    [] p = "shifted" -> [a EXCEPT !.first = [d \in 1..SD |-> a.first[d] + 1], !.val = [k \in 1..Prod(a.shape) |-> 6000 + k]]
    [] p = "reshaped" -> [shape |-> Rev(a.shape), first |-> [d \in 1..SD |-> 0], val |-> [k \in 1..Prod(a.shape) |-> 8000 + k]]
    [] p = "other" -> [shape |-> [d \in 1..SD |-> a.shape[d] + 1], first |-> [d \in 1..SD |-> 1],
                       val |-> [k \in 1..Prod([d \in 1..SD |-> a.shape[d] + 1]) |-> 7000 + k]]

RECURSIVE ExtTokens(_, _)
ExtTokens(sh, fi) == IF sh = <<>> THEN <<>> ELSE <<fi[1], fi[1] + sh[1]>> \o ExtTokens(Tail(sh), Tail(fi))

Save(a) == ExtTokens(a.shape, a.first) \o a.val

(* loading: the first 2D tokens are the extensions, the rest the elements, whatever the target held *)
Load(tokens, target) ==
  LET ext == [d \in 1..SD |-> <<tokens[2 * d - 1], tokens[2 * d]>>]
      sh  == [d \in 1..SD |-> ext[d][2] - ext[d][1]]
  IN [shape |-> sh, first |-> [d \in 1..SD |-> ext[d][1]], val |-> SubSeq(tokens, 2 * SD + 1, Len(tokens))]

SInit == src \in Arrays /\ prior \in Priors
SNext == UNCHANGED svars
SSpec == SInit /\ [][SNext]_svars

(* the model's round trip: for an empty array the index bases are immaterial *)
RoundTrip ==
  LET r == Load(Save(src), PriorOf(src, prior)) IN
  r.shape = src.shape /\ r.val = src.val /\ (Prod(src.shape) > 0 => r.first = src.first)

SExpect == [D |-> SD, src |-> src, prior |-> prior, priorval |-> PriorOf(src, prior), tokens |-> Save(src)]
SEmitC == (~SEmit) \/ PrintT(ToJson(SExpect))
=============================================================================
