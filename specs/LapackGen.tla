----------------------------- MODULE LapackGen -----------------------------
(***************************************************************************)
(* Property C14, quantification domain (direction G).                      *)
(*                                                                         *)
(* "For each routine, all sizes 1..n (rectangular where allowed), both     *)
(* triangle selections, both storage orientations, contiguous and padded   *)
(* views".  This module defines that lattice as the set Cases and lets TLC *)
(* print one JSON line per case; the driver adds a data seed and concrete  *)
(* paddings (checked again by Lapack!DescOK) and hands each case to the    *)
(* replayer.  Lapack.tla (the trace monitor) is the oracle.                *)
(*                                                                         *)
(*  rt     routine: potrf | geqrf | gesvd                                  *)
(*  dt     element type: s d c z (geqrf/gesvd exist for double only)       *)
(*  orient "row": view with unit inner stride; "col": its transpose (~X)   *)
(*  pad    0: the view is the whole array; 1: a sub-block of a larger one  *)
(*  m, n   view sizes (potrf: m <= n, the matrix is the leading m x m block) *)
(*  uplo   potrf: "L" (filling::lower) | "U" (filling::upper)              *)
(*  plant  potrf: -1 = positive definite input, p >= 0 = the pivot at      *)
(*         zero-based position p is made non-positive                      *)
(*  form   gesvd: "inplace" = gesvd(A, U, s, VT); "copy" = gesvd(A const&) *)
(*  uvor, uvpad   gesvd: orientation / padding of the U and VT operands    *)
(***************************************************************************)
EXTENDS Integers, TLC, Json

CONSTANTS BigSizes,    \* sizes beyond LAPACK's small-problem thresholds (workspace / block size 32, 64): see GeqrfBig
          MaxN,        \* largest size
          PotrfTypes   \* subset of {"s", "d", "c", "z"}

PotrfCases ==
  {c \in [rt : {"potrf"}, dt : PotrfTypes, orient : {"row", "col"}, pad : {0, 1}, m : 1..MaxN, n : 1..MaxN,
          uplo : {"L", "U"}, plant : (-1)..(MaxN - 1), form : {"inplace"}, uvor : {"row"}, uvpad : {0}] :
     \* square views, and views with fewer rows than columns: the matrix is then the leading m x m block (the order is the
     \* number of rows, i.e. of items between begin() and end()); the remaining columns are not part of it and stay untouched
     \* (only for views with unit inner stride: what a transposed view with unequal sizes means to potrf is not documented)
     c.m <= c.n /\ c.plant < c.m /\ (c.m < c.n => c.orient = "row")}

GeqrfCases ==
  [rt : {"geqrf"}, dt : {"d"}, orient : {"row", "col"}, pad : {0, 1}, m : 1..MaxN, n : 1..MaxN,
   uplo : {"-"}, plant : {-1}, form : {"inplace"}, uvor : {"row"}, uvpad : {0}]

(* long and thin / short and wide operands: one size beyond the thresholds at which LAPACK (and any shortcut in front of it)   *)
(* switches algorithm or workspace; the monitor demands acceptance and the frame for them, not the reconstruction (its       *)
(* fixed-point bounds are made for sizes <= 6)                                                                                *)
GeqrfBig ==
  {c \in [rt : {"geqrf"}, dt : {"d"}, orient : {"row", "col"}, pad : {0, 1}, m : BigSizes \cup {1, 3}, n : BigSizes \cup {1, 3},
          uplo : {"-"}, plant : {-1}, form : {"inplace"}, uvor : {"row"}, uvpad : {0}] :
     (c.m \in BigSizes) # (c.n \in BigSizes)}

GesvdCases ==
  {c \in [rt : {"gesvd"}, dt : {"d"}, orient : {"row", "col"}, pad : {0, 1}, m : 1..MaxN, n : 1..MaxN,
          uplo : {"-"}, plant : {-1}, form : {"inplace", "copy"}, uvor : {"row", "col"}, uvpad : {0, 1}] :
     /\ c.form = "copy" => (c.orient = "row" /\ c.pad = 0 /\ c.uvor = "row" /\ c.uvpad = 0)   \* gesvd(A const&) takes owning arrays only
     /\ c.uvor = "col" => (c.orient = "row" /\ c.pad = 0)}                                    \* transposed U/VT: only against the plain A

Cases == PotrfCases \cup GeqrfCases \cup GeqrfBig \cup GesvdCases

VARIABLE c
GInit == c \in Cases
GNext == UNCHANGED c
GSpec == GInit /\ [][GNext]_c
GEmitC == PrintT(ToJson(c))
=============================================================================
