------------------------------- MODULE AlgGen -------------------------------
(***************************************************************************)
(* Generator for property C03: every view of ViewAlgebra (programs of      *)
(* bounded depth) x range kind x algorithm x argument.  Emits the ITEM     *)
(* CELLS the requirement prescribes for the range (sub-views for           *)
(* begin()/end(), single elements for elements()); data are chosen by the  *)
(* replayer; the verdict is the trace monitor Algorithms.tla.              *)
(***************************************************************************)
EXTENDS ViewAlgebra

CONSTANTS Algs, GKinds, MaxItems

VARIABLES plan
gvars == <<root, abs, impl, path, plan>>

NoPlan == [alg |-> "none", kind |-> "none", arg |-> 0]

NItems(k) == IF k = "outer" THEN abs.shape[1] ELSE NumElements(abs)
ItemCells(k) ==
  IF k = "outer"
  THEN [i \in 1..abs.shape[1] |->
          IF Dim(abs) = 1 THEN <<abs.cell[<<i - 1>>]>> ELSE ElementsOf(IndexF(abs, abs.first[1] + i - 1))]
  ELSE [i \in 1..NumElements(abs) |-> <<ElementsOf(abs)[i]>>]

NeedsArg == {"partial_sort", "nth_element", "rotate", "partition", "remove", "find", "fill"}

GInit == Init /\ plan = NoPlan
GView == plan = NoPlan /\ Len(path) < MaxDepth /\ (\E o \in Candidates(abs) : Step(o)) /\ UNCHANGED plan
GPlan ==
  /\ plan = NoPlan
  /\ Dim(abs) >= 1
  /\ NumElements(abs) >= 1
  /\ \E k \in GKinds, a \in Algs :
       /\ NItems(k) <= MaxItems
       /\ (a \in {"accumulate", "transform"} => (k = "elems" \/ Dim(abs) = 1))
       /\ \E g \in (IF a \in NeedsArg THEN 0..(IF a \in {"partial_sort", "rotate"} THEN NItems(k) ELSE NItems(k) - 1) ELSE {0}) :
            plan' = [alg |-> a, kind |-> k, arg |-> g]
  /\ UNCHANGED <<root, abs, impl, path>>
GNext == GView \/ GPlan
GSpec == GInit /\ [][GNext]_gvars
GVW == <<root, abs, plan>>

GInjective == \A t1, t2 \in DOMAIN abs.cell : t1 # t2 => abs.cell[t1] # abs.cell[t2]

GExpect == [root |-> root, path |-> path, kind |-> plan.kind, alg |-> plan.alg, arg |-> plan.arg, cells |-> ItemCells(plan.kind)]
GEmitC == (~Emit) \/ plan = NoPlan \/ PrintT(ToJson(GExpect))
=============================================================================
