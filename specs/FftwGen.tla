------------------------------ MODULE FftwGen ------------------------------
(***************************************************************************)
(* Generator for property C15 (FFTW adaptor): enumerates the case lattice  *)
(*                                                                         *)
(*   logical shape x mask of transformed dimensions x sign x API form      *)
(*   x layout of the input view x layout of the output view                *)
(*                                                                         *)
(* A LAYOUT is a short program of view-forming operations applied to a     *)
(* fresh row-major root array whose sizes are computed backwards so that   *)
(* the resulting view has exactly the requested logical shape:             *)
(*   rot / unrot / transp / rev : permutations of the dimensions           *)
(*   sub  : a sub-block of a root padded by one in every dimension         *)
(*   str2 : every second hyper-row of a root with twice as many of them    *)
(*   col  : one column of a root with an extra innermost dimension of 3    *)
(* The views are evaluated with the requirement-level view semantics of    *)
(* MultiSem.tla, so each emitted case also carries the root cells the view *)
(* designates (used as a cross-check of the harness, not as the oracle of  *)
(* C15; the oracle is Fftw.tla).                                           *)
(***************************************************************************)
EXTENDS MultiSem, TLC, Json

CONSTANTS ShapeCodes, \* set of logical shapes, each written as a decimal number (234 = <<2, 3, 4>>; sizes 1..9;
                      \* a configuration file cannot spell tuples)
          Modes,      \* subset of AllModes
          LOps,       \* subset of AllLOps
          MaxEach,    \* bound on the length of one layout program
          MaxSum,     \* bound on the summed lengths of the input and output programs
          Emit        \* print the cases

AllModes == {"dft", "fb", "plan", "lazy", "lazy_fwd", "lazy_all", "round", "inplace", "inplace_b", "same"}
Lazy     == {"lazy", "lazy_fwd", "lazy_all"}     \* front ends of adaptors/fft.hpp
AllLOps  == {"rot", "unrot", "transp", "rev", "sub", "str2", "col"}
InPlace  == {"inplace", "inplace_b", "same"}
MaxRootDim == 5

ASSUME Modes \subseteq AllModes /\ LOps \subseteq AllLOps

RECURSIVE Digits(_)
Digits(n) == IF n < 10 THEN <<n>> ELSE Digits(n \div 10) \o <<n % 10>>
Shapes == {Digits(c) : c \in ShapeCodes}
ASSUME \A s \in Shapes : \A d \in 1..Len(s) : s[d] >= 1

VARIABLES phase, cs
vars == <<phase, cs>>

-----------------------------------------------------------------------------
(* layout programs *)

Perms == {"rot", "unrot", "transp", "rev"}
Cancel == {<<"rot", "unrot">>, <<"unrot", "rot">>, <<"transp", "transp">>, <<"rev", "rev">>}

SeqsUpTo(S, n) == UNION {[1..k -> S] : k \in 0..n}

ColsFrom(p, k) == Cardinality({j \in k..Len(p) : p[j] = "col"})
(* dimensionality of the operand of the k-th operation when the final view has D dimensions *)
DimAt(p, k, D) == D + ColsFrom(p, k)

ValidProg(p, D) ==
  /\ \A k \in 1..Len(p) :
       /\ DimAt(p, k, D) <= MaxRootDim
       /\ (p[k] \in Perms => DimAt(p, k, D) >= 2)
  /\ \A k \in 1..(Len(p) - 1) : <<p[k], p[k + 1]>> \notin Cancel

Progs(D) == {p \in SeqsUpTo(LOps, MaxEach) : ValidProg(p, D)}

(* the shape the operand must have for the result of the operation to have shape s *)
InvSh(o, s) ==
  CASE o = "rot"    -> Unrot(s)
    [] o = "unrot"  -> Rot(s)
    [] o = "transp" -> Swap12(s)
    [] o = "rev"    -> Rev(s)
    [] o = "sub"    -> [d \in 1..Len(s) |-> s[d] + 1]
    [] o = "str2"   -> [s EXCEPT ![1] = 2 * s[1]]
    [] o = "col"    -> s \o <<3>>

RECURSIVE RootShape(_, _)
RootShape(p, sh) == IF p = <<>> THEN sh ELSE InvSh(Head(p), RootShape(Tail(p), sh))

(* sub-block: odd dimensions skip the first hyper-row, even dimensions the last one *)
Lo(d) == d % 2
Hi(d) == 1 - (d % 2)

(* the library operations (in the vocabulary of MultiSem.ApplyF) a layout op stands for, given the operand's shape *)
Prims(o, s) ==
  CASE o = "rot"    -> <<[op |-> "rotated", args |-> <<>>]>>
    [] o = "unrot"  -> <<[op |-> "unrotated", args |-> <<>>]>>
    [] o = "transp" -> <<[op |-> "transposed", args |-> <<>>]>>
    [] o = "rev"    -> <<[op |-> "reversed", args |-> <<>>]>>
    [] o = "sub"    -> <<[op |-> "paren",
                          args |-> [k \in 1..(3 * Len(s)) |->
                                      LET d == (k + 2) \div 3
                                          r == (k - 1) % 3
                                      IN IF r = 0 THEN 1 ELSE IF r = 1 THEN Lo(d) ELSE s[d] - Hi(d)]]>>
    [] o = "str2"   -> <<[op |-> "strided", args |-> <<2>>]>>
    [] o = "col"    -> <<[op |-> "unrotated", args |-> <<>>], [op |-> "index", args |-> <<1>>]>>

RECURSIVE ApplyAll(_, _)
ApplyAll(v, q) == IF q = <<>> THEN v ELSE ApplyAll(ApplyF(v, Head(q)), Tail(q))

RECURSIVE PreAll(_, _)
PreAll(v, q) == IF q = <<>> THEN TRUE ELSE ApplyPre(v, Head(q)) /\ PreAll(ApplyF(v, Head(q)), Tail(q))

RECURSIVE Build(_, _, _, _)
Build(v, p, acc, ok) ==
  IF p = <<>> THEN [view |-> v, prims |-> acc, ok |-> ok]
  ELSE LET q == Prims(Head(p), v.shape)
       IN Build(ApplyAll(v, q), Tail(p), acc \o q, ok /\ PreAll(v, q))

Layout(p, sh) ==
  LET rs == RootShape(p, sh)
      b  == Build(RootView(rs, Zeros(Len(rs))), p, <<>>, TRUE)
  IN [prog |-> p, root |-> rs, prims |-> b.prims, shape |-> b.view.shape, cells |-> ElementsOf(b.view),
      pre |-> b.ok, affine |-> IsAffine(b.view)]

-----------------------------------------------------------------------------
(* the lattice *)

Masks(D) == [1..D -> {0, 1}]
SignsOf(m) == IF m \in {"round", "lazy_fwd"} THEN {-1} ELSE IF m = "inplace_b" THEN {1} ELSE {-1, 1}
MasksOf(m, D) == IF m = "lazy_all" THEN {[d \in 1..D |-> 1]} ELSE Masks(D)

(* the lazy range of adaptors/fft.hpp does not instantiate for one-dimensional arrays (separate compile probe) *)
ModeOK(s, m) == m \in Lazy => Len(s) >= 2
Init == phase = "pick" /\ cs \in {c \in {[sh |-> s, mode |-> m] : s \in Shapes, m \in Modes} : ModeOK(c.sh, c.mode)}

Choose ==
  /\ phase = "pick"
  /\ phase' = "case"
  /\ LET D == Len(cs.sh) IN
     \E w \in MasksOf(cs.mode, D), sg \in SignsOf(cs.mode), ip \in Progs(D) :
       \E op \in (IF cs.mode \in InPlace THEN {ip} ELSE Progs(D)) :
         /\ (cs.mode \notin InPlace => Len(ip) + Len(op) <= MaxSum)
         /\ cs' = [sh |-> cs.sh, mode |-> cs.mode, which |-> w, sign |-> sg,
                   in |-> Layout(ip, cs.sh), out |-> Layout(op, cs.sh)]

Next == Choose
Spec == Init /\ [][Next]_vars

-----------------------------------------------------------------------------
(* design-level checks on every generated case: the layout programs are within the documented   *)
(* preconditions of the view operations, produce exactly the requested logical shape, designate *)
(* pairwise distinct cells inside the root, and are affine (what FFTW's stride interface needs) *)
Injective(c) == \A i, j \in 1..Len(c) : i # j => c[i] # c[j]
LayoutOK(L, sh) ==
  /\ L.pre /\ L.shape = sh /\ L.affine /\ Injective(L.cells)
  /\ \A i \in 1..Len(L.cells) : L.cells[i] >= 0 /\ L.cells[i] < Prod(L.root)
CaseOK == phase = "case" => LayoutOK(cs.in, cs.sh) /\ LayoutOK(cs.out, cs.sh)

Strip(L) == [prog |-> L.prog, root |-> L.root, prims |-> L.prims, cells |-> L.cells]
EmitC == (~Emit) \/ phase # "case"
         \/ PrintT(ToJson([sh |-> cs.sh, mode |-> cs.mode, which |-> cs.which, sign |-> cs.sign,
                           in |-> Strip(cs.in), out |-> Strip(cs.out)]))
=============================================================================
