----------------------------- MODULE MultiLayout -----------------------------
(***************************************************************************)
(* Code-shaped model of boost::multi::layout_t and of the view operations  *)
(* of const_subarray (array_ref.hpp), transcribed from the code:           *)
(* a view is (base, lay) where lay is a sequence, one record per           *)
(* dimension, of [s |-> stride, o |-> offset, n |-> nelems]                *)
(* (layout.hpp:711-714).  base is the cell number of the element with the  *)
(* first valid index tuple.                                                *)
(*                                                                         *)
(* This module is a DESIGN-level model: TLC checks that it refines         *)
(* MultiSem (ViewAlgebra!Refines).  Verdicts about the real code never     *)
(* depend on it; the real layout numbers are compared with it in drift     *)
(* mode only.                                                              *)
(***************************************************************************)
EXTENDS Integers, Sequences, FiniteSets, MultiSem

Dm(s, o, n) == [s |-> s, o |-> o, n |-> n]

(* layout_t::size(), layout.hpp:846 *)
LSizeD(d)  == IF d.n = 0 THEN 0 ELSE d.n \div d.s
LSize(l)   == LSizeD(l[1])
LSizes(l)  == [k \in 1..Len(l) |-> LSizeD(l[k])]
RECURSIVE LNumElements(_)
(* layout_t::num_elements(), layout.hpp:837 *)
LNumElements(l) == IF l = <<>> THEN 1 ELSE LSize(l) * LNumElements(Tail(l))
(* layout_t::extension(), layout.hpp:880 *)
LFirstD(d) == IF d.n = 0 THEN 0 ELSE d.o \div d.s
LFirsts(l) == [k \in 1..Len(l) |-> LFirstD(l[k])]

(* layout_t(extensions), layout.hpp:735-745; ext = Seq of <<first, size>> *)
RECURSIVE LFromExt(_)
LFromExt(ext) ==
  IF ext = <<>> THEN <<>>
  ELSE LET sub  == LFromExt(Tail(ext))
           sne  == LNumElements(sub)
           st   == IF sne # 0 THEN sne ELSE 1
       IN <<Dm(st, ext[1][1] * st, ext[1][2] * sne)>> \o sub

(* the view record *)
LV(base, lay) == [base |-> base, lay |-> lay]

LRootView(sh, fi) == LV(0, LFromExt([k \in 1..Len(sh) |-> <<fi[k], sh[k]>>]))

-----------------------------------------------------------------------------
(* operator[] : array_ref.hpp:1146-1153 *)
LIndex(v, i) == LV(v.base + (i * v.lay[1].s - v.lay[1].o), Tail(v.lay))

(* sliced_aux_ : array_ref.hpp:1258-1277 (D>1) and :2922-2932 (D=1).         *)
(* The one-dimensional specialisation omitted "- offset" at the pinned      *)
(* commit (oneDimQuirk = TRUE models that; fixed in /repo by be90040).      *)
LSliced(v, a, b, oneDimQuirk) ==
  LET d == v.lay[1]
      nb == IF Len(v.lay) = 1 /\ oneDimQuirk
            THEN v.base + a * d.s
            ELSE v.base + (a * d.s - d.o)
  IN LV(nb, [v.lay EXCEPT ![1].n = d.s * (b - a)])

(* strided_aux_ : array_ref.hpp:1328-1331 *)
LStrided(v, s) == LV(v.base, [v.lay EXCEPT ![1].s = v.lay[1].s * s])

(* dropped_aux_ : array_ref.hpp:1229-1249 *)
LDropped(v, n) ==
  LET d == v.lay[1] IN
  LV(v.base + n * d.s, [v.lay EXCEPT ![1].n = d.s * (LSize(v.lay) - n)])

(* taked_aux_ / layout_t::take : array_ref.hpp:1208, layout.hpp:966 *)
LTaked(v, n) == LV(v.base, [v.lay EXCEPT ![1].n = v.lay[1].s * n])

(* layout_t::transpose/rotate/unrotate/reverse : layout.hpp:935-949 *)
LTransposed(v) == LV(v.base, Swap12(v.lay))
LRotated(v)    == LV(v.base, Rot(v.lay))
LUnrotated(v)  == LV(v.base, Unrot(v.lay))
LReversed(v)   == LV(v.base, Rev(v.lay))

(* paren_aux_ : array_ref.hpp:1542-1550 *)
RECURSIVE LParen(_, _, _)
LParen(v, args, q) ==
  IF args = <<>> THEN v
  ELSE LET h == Head(args) IN
       IF h[1] = 0 THEN LParen(LIndex(v, h[2]), Tail(args), q)
       ELSE LET w == IF h[1] = 1 THEN LSliced(v, h[2], h[3], q) ELSE v
            IN LUnrotated(LParen(LRotated(w), Tail(args), q))

(* diagonal_aux_ : array_ref.hpp (after fix dbd79f6: the square is taken from the first  *)
(* valid indices and the resulting layout is zero-based)                                *)
LDiagonal(v, q) ==
  LET sq == Min2(LSize(v.lay), LSizeD(v.lay[2]))
      f0 == LFirstD(v.lay[1])
      f1 == LFirstD(v.lay[2])
      p  == LParen(v, <<<<1, f0, f0 + sq>>, <<1, f1, f1 + sq>>>>, q)
      sub == Tail(p.lay)
  IN LV(v.base, [sub EXCEPT ![1].n = sub[1].n + p.lay[1].n,
                            ![1].s = sub[1].s + p.lay[1].s,
                            ![1].o = 0])

(* partitioned_aux_ : array_ref.hpp:1423-1431 *)
LPartitioned(v, n) ==
  LET d == v.lay[1] IN
  LV(v.base, <<Dm(d.n \div n, 0, d.n)>> \o [v.lay EXCEPT ![1].n = d.n \div n])

(* chunked_aux_ : array_ref.hpp:1441-1444 *)
LChunked(v, c) == LPartitioned(v, LSize(v.lay) \div c)

(* layout_t::halve (layout.hpp:975-983): take(size/2) as the sub-layout, stride nelems/2 *)
LHalved(v) ==
  LET d == v.lay[1] IN
  LV(v.base, <<Dm(d.n \div 2, 0, d.n)>> \o [v.lay EXCEPT ![1].n = d.s * (LSize(v.lay) \div 2)])

(* is_flattable / flatted : array_ref.hpp:1351-1363 *)
LFlattable(v) == Len(v.lay) >= 2 /\ (LSize(v.lay) <= 1 \/ v.lay[1].s = v.lay[2].n)
LFlatted(v) ==
  LET sub == Tail(v.lay) IN LV(v.base, [sub EXCEPT ![1].n = sub[1].n * LSize(v.lay)])

(* broadcasted()[k] : array_ref.hpp:1371-1375 then operator[] with stride 0, offset 0 *)
LBroadcastAt(v, k) == LV(v.base + (k * 0 - 0), v.lay)

(* layout_t::reindex : layout.hpp:833-835; reindexed keeps base *)
RECURSIVE LReindexLay(_, _)
LReindexLay(l, g) ==
  IF g = <<>> THEN l
  ELSE <<[l[1] EXCEPT !.o = g[1] * l[1].s]>> \o LReindexLay(Tail(l), Tail(g))
LReindexed(v, g) == LV(v.base, LReindexLay(v.lay, g))

(* blocked : sliced(first,last).reindexed(first), array_ref.hpp:1282 *)
LBlocked(v, a, b, q) == LReindexed(LSliced(v, a, b, q), <<a>>)

(* stenciled : blocked on the leading dimension, then rotated().stenciled(rest).unrotated(), array_ref.hpp:1305-1326 *)
RECURSIVE LStenciled(_, _, _)
LStenciled(v, g, q) ==
  IF Len(g) = 2 THEN LBlocked(v, g[1], g[2], q)
  ELSE LUnrotated(LStenciled(LRotated(LBlocked(v, g[1], g[2], q)), Tail(Tail(g)), q))

LApply(v, o, q) ==
  CASE o.op = "index"       -> LIndex(v, o.args[1])
    [] o.op = "sliced"      -> LSliced(v, o.args[1], o.args[2], q)
    [] o.op = "strided"     -> LStrided(v, o.args[1])
    [] o.op = "dropped"     -> LDropped(v, o.args[1])
    [] o.op = "taked"       -> LTaked(v, o.args[1])
    [] o.op = "rotated"     -> LRotated(v)
    [] o.op = "unrotated"   -> LUnrotated(v)
    [] o.op = "transposed"  -> LTransposed(v)
    [] o.op = "reversed"    -> LReversed(v)
    [] o.op = "diagonal"    -> LDiagonal(v, q)
    [] o.op = "partitioned" -> LPartitioned(v, o.args[1])
    [] o.op = "chunked"     -> LChunked(v, o.args[1])
    [] o.op = "flatted"     -> LFlatted(v)
    [] o.op = "halved"      -> LHalved(v)
    [] o.op = "sliced3"     -> LStrided(LSliced(v, o.args[1], o.args[2], q), o.args[3])
    [] o.op = "tilde"       -> LTransposed(v)
    [] o.op = "broadcast"   -> LBroadcastAt(v, o.args[1])
    [] o.op = "reindexed"   -> LReindexed(v, o.args)
    [] o.op = "blocked"     -> LBlocked(v, o.args[1], o.args[2], q)
    [] o.op = "stenciled"   -> LStenciled(v, o.args, q)
    [] o.op = "tiled_q"     -> LChunked(LTaked(v, LSize(v.lay) - (LSize(v.lay) % o.args[1])), o.args[1])
    [] o.op = "tiled_r"     -> LDropped(v, LSize(v.lay) - (LSize(v.lay) % o.args[1]))
    [] o.op = "range"       -> LSliced(v, o.args[1], o.args[2], q)
    [] o.op = "front"       -> LIndex(v, LFirstD(v.lay[1]))
    [] o.op = "back"        -> LIndex(v, LFirstD(v.lay[1]) + LSize(v.lay) - 1)
    [] o.op = "addr"        -> v
    [] o.op = "paren"       -> LParen(v, Triples(o.args), q)

-----------------------------------------------------------------------------
(* Decoding a code-shaped view into a requirement-level view *)
RECURSIVE LDot(_, _)
LDot(t, l) == IF t = <<>> THEN 0 ELSE Head(t) * l[1].s + LDot(Tail(t), Tail(l))

Decode(v) == Mk(LSizes(v.lay), LFirsts(v.lay), LAMBDA t : v.base + LDot(t, v.lay))

(* hull_size, layout.hpp:951-954 (strides are non-negative in every reachable state) *)
RECURSIVE LHull(_)
LHull(l) ==
  IF l = <<>> THEN 1
  ELSE IF l[1].n = 0 THEN 0
  ELSE LET a == LSize(l) * l[1].s
           b == LHull(Tail(l))
       IN IF a > b THEN a ELSE b
=============================================================================
