----------------------------- MODULE ViewAlgebra -----------------------------
(***************************************************************************)
(* State machine of view composition (properties C01, C19, C20).           *)
(*                                                                         *)
(*   root : [shape, first] of the owning array the program starts from     *)
(*   abs  : requirement-level view (MultiSem): positions -> root cells     *)
(*   impl : code-shaped view (MultiLayout): base + (stride,offset,nelems)  *)
(*   path : the program (sequence of operations) that produced the view    *)
(*                                                                         *)
(* Next applies any view-forming operation whose documented precondition   *)
(* holds, to both levels.  TLC checks on every reachable state that the    *)
(* code-shaped arithmetic refines the documented index mapping and that    *)
(* no designated cell lies outside the root.  The same run emits, for      *)
(* every transition, the program and the state the specification           *)
(* prescribes; those lines are replayed on the real library.               *)
(***************************************************************************)
EXTENDS Integers, Sequences, FiniteSets, TLC, Json, MultiLayout

CONSTANTS
  MaxD,        \* dimensionalities of roots: 1..MaxD
  MaxExt,      \* extents of roots: 0..MaxExt
  MaxDepth,    \* number of operations in a program
  MaxDim,      \* operations that would produce more dimensions are disabled
  Bases,       \* set of index bases of roots ({0} for C01)
  OpNames,     \* enabled operation names
  ParenArgs,   \* max number of arguments of the call syntax
  ParenLean,   \* TRUE: boundary arguments only in the call syntax (quick tier)
  OneDimQuirk, \* model line 2929 of array_ref.hpp as written (TRUE) or as intended (FALSE)
  Emit         \* print one JSON line per transition

(* named constant sets for configurations (a .cfg file cannot spell negative numbers) *)
BasesZero  == {0}
BasesMixed == {-1, 0, 2}
BasesTwo   == {0, 2}
BasesWide  == {-2, -1, 0, 1, 3}

VARIABLES root, abs, impl, path
vars == <<root, abs, impl, path>>
VW   == <<root, abs, impl>>        \* VIEW: programs reaching the same state are merged

RECURSIVE SeqsUpTo(_, _)
(* all sequences over S of length exactly n *)
SeqsUpTo(S, n) == IF n = 0 THEN {<<>>} ELSE {<<x>> \o s : x \in S, s \in SeqsUpTo(S, n - 1)}

Shapes == UNION {SeqsUpTo(0..MaxExt, d) : d \in 1..MaxD}
Roots  == {[shape |-> sh, first |-> fi] : sh \in Shapes, fi \in UNION {SeqsUpTo(Bases, d) : d \in 1..MaxD}}
RootsOK == {r \in Roots : Len(r.shape) = Len(r.first)}

O0(name)       == [op |-> name, args |-> <<>>]
O1(name, a)    == [op |-> name, args |-> <<a>>]
O2(name, a, b) == [op |-> name, args |-> <<a, b>>]

(* the argument choices for one position of the call syntax *)
ParenChoices(v, d) ==
  LET f == v.first[d]  n == v.shape[d] IN
  IF ParenLean
  THEN {<<0, i, 0>> : i \in {f, f + n - 1}}
       \cup {<<1, f + 1, f + n>>, <<1, f, f + n - 1>>, <<1, f + 1, f + 1>>}
       \cup {<<2, 0, 0>>}
  ELSE {<<0, i, 0>> : i \in f..(f + n - 1)}
       \cup {<<1, a, b>> : a \in f..(f + n), b \in f..(f + n)}
       \cup {<<2, 0, 0>>}

RECURSIVE ParenSeqs(_, _, _)
ParenSeqs(v, d, k) ==   \* argument lists for dimensions d..k
  IF d > k THEN {<<>>}
  ELSE {<<c>> \o s : c \in ParenChoices(v, d), s \in ParenSeqs(v, d + 1, k)}

RECURSIVE Flatten3(_)
Flatten3(tr) == IF tr = <<>> THEN <<>> ELSE Head(tr) \o Flatten3(Tail(tr))

Candidates(v) ==
  IF Dim(v) = 0 THEN {}
  ELSE IF IsEmptyV(v) THEN {O0("rotated"), O0("unrotated"), O0("transposed"), O0("reversed")}
  ELSE
  LET f == v.first[1]  n == v.shape[1] IN
       {O1("index", i) : i \in f..(f + n - 1)}
  \cup {O2("sliced", a, b) : a \in f..(f + n), b \in f..(f + n)}
  \cup {O2("blocked", a, b) : a \in f..(f + n), b \in f..(f + n)}
  \cup {O2("stenciled", a, b) : a \in f..(f + n), b \in f..(f + n)}
  \cup (IF Dim(v) < 2 THEN {}
        ELSE {[op |-> "stenciled", args |-> <<a, b, c, e>>] :
                a \in f..(f + n), b \in f..(f + n), c \in v.first[2]..(v.first[2] + v.shape[2]), e \in v.first[2]..(v.first[2] + v.shape[2])})
  \cup {O2("range", a, b) : a \in f..(f + n), b \in f..(f + n)}
  \cup {O0(nm) : nm \in {"front", "back", "addr"}}
  \cup {O1("strided", s) : s \in 1..MaxExt}
  \cup {[op |-> "sliced3", args |-> <<a, b, st>>] : a \in f..(f + n), b \in f..(f + n), st \in 2..MaxExt}
  \cup {O1("dropped", k) : k \in 0..n}
  \cup {O1("taked", k) : k \in 0..n}
  \cup {O1("partitioned", p) : p \in 1..MaxExt}
  \cup {O1("chunked", c) : c \in 1..MaxExt}
  \cup {O1(nm, c) : nm \in {"tiled_q", "tiled_r"}, c \in 1..MaxExt}
  \cup {O1("broadcast", k) : k \in {0, 7}}
  \cup {O1("reindexed", g) : g \in Bases}
  \cup {O2("reindexed", g, h) : g \in Bases, h \in Bases}
  \cup {O0(nm) : nm \in {"rotated", "unrotated", "transposed", "reversed", "diagonal", "flatted", "halved", "tilde"}}
  \cup {[op |-> "paren", args |-> Flatten3(s)] :
          s \in UNION {ParenSeqs(v, 1, k) : k \in 0..Min2(Dim(v), ParenArgs)}}

ResultDim(v, o) ==
  CASE o.op \in {"partitioned", "chunked", "broadcast", "halved", "tiled_q"} -> Dim(v) + 1    \* broadcast passes through a (D+1)-dimensional view
    [] o.op \in {"front", "back", "index"} -> Dim(v) - 1
    [] OTHER -> Dim(v)

Enabled(o) ==
  /\ o.op \in OpNames
  /\ ApplyPre(abs, o)
  /\ ResultDim(abs, o) <= MaxDim
  /\ (o.op = "flatted" => LFlattable(impl))     \* layout-level precondition is_flattable()
  \* strided on a re-based view is in the documented domain only when the
  \* index base is a multiple of the stride (extension() asserts otherwise)
  /\ (o.op = "strided" => abs.first[1] % o.args[1] = 0)

Init ==
  /\ root \in RootsOK
  /\ abs = RootView(root.shape, root.first)
  /\ impl = LRootView(root.shape, root.first)
  /\ path = <<>>

(* The receiver of an operation can be an lvalue, a const lvalue or a temporary; the library has one  *)
(* overload per value category for nearly every operation (X.op() &, X.op() const&, X.op() &&) and   *)
(* the requirement is the same for all three: the value category never changes which elements are   *)
(* designated.  Recvs is overridden in a cfg (Recvs <- RecvsAll) by the runs that enumerate it.        *)
Ons      == {"view"}
OnsBoth  == {"view", "array"}
OnsArray == {"array"}
Recvs    == {"lv"}
RecvsAll == {"lv", "const", "rv"}
RecvsCR  == {"const", "rv"}

Step(o) ==
  /\ Enabled(o)
  /\ abs'  = ApplyF(abs, o)
  /\ impl' = LApply(impl, o, OneDimQuirk)
  \* the first operation of a program is applied to a view of the root (A().op()) or to the owning array itself (A.op()):
  \* an array has overloads of its own for part of the interface; Ons is overridden like Recvs
  /\ \E r \in Recvs, w \in (IF path = <<>> THEN Ons ELSE {"view"}) :
       path' = Append(path, [op |-> o.op, args |-> o.args, recv |-> r, on |-> w])
  /\ UNCHANGED root

Next == Len(path) < MaxDepth /\ \E o \in Candidates(abs) : Step(o)

Spec == Init /\ [][Next]_vars

-----------------------------------------------------------------------------
(* Invariants *)

(* the code-shaped arithmetic designates exactly the prescribed elements *)
Refines ==
  IF IsEmptyV(abs) THEN LNumElements(impl.lay) = 0
  ELSE LET d == Decode(impl) IN
       /\ d.shape = abs.shape
       /\ d.cell  = abs.cell
       /\ d.first = abs.first

(* no view designates storage outside the original array *)
InBounds == \A t \in DOMAIN abs.cell : abs.cell[t] >= 0 /\ abs.cell[t] < Prod(root.shape)

(* the documented mappings keep views affine (so strides() is meaningful) *)
Affine == IsAffine(abs)

(* index bases: re-indexing never changes which elements are viewed (C19) *)
TypeOK ==
  /\ Len(abs.shape) = Len(abs.first)
  /\ Len(impl.lay) = Len(abs.shape)
  /\ DOMAIN abs.cell = Tuples(abs.shape)

-----------------------------------------------------------------------------
(* Emission of (program, prescribed state) pairs for the conformance replay *)

Expect ==
  [ root  |-> root,
    path  |-> path,
    shape |-> abs.shape,
    first |-> abs.first,
    ne    |-> NumElements(abs),
    cells |-> ElementsOf(abs),
    sstr  |-> [d \in 1..Dim(abs) |-> SemStride(abs, d)],
    lay   |-> [d \in 1..Len(impl.lay) |-> <<impl.lay[d].s, impl.lay[d].o, impl.lay[d].n>>],
    base  |-> impl.base ]

EmitC == (~Emit) \/ PrintT(ToJson(Expect))
=============================================================================
