------------------------------- MODULE BlasGen -------------------------------
(***************************************************************************)
(* Generator for property C13 (BLAS adaptor): the lattice of cases         *)
(*   operation x calling form x element type x per-operand layout variant  *)
(*   x sizes x scalars                                                     *)
(* is enumerated by TLC; every case (a stage-2 state) is printed as one    *)
(* JSON line and executed by harness/replay_blas.cpp on the real library.  *)
(* The verdict on each executed case is given by the trace monitor         *)
(* Blas.tla.  Nothing in here says what a result should be.                *)
(*                                                                         *)
(* Operand variants                                                        *)
(*   matrix  t in {N,T,J,H}: the view manipulator applied (blas::N, T, J,  *)
(*           H) to a row-major block; p in {c,p}: the block is a whole     *)
(*           contiguous array ("c") or a sub-block of a larger one ("p")   *)
(*   vector  s in {u,s2,col}: unit stride, .strided(2), column of a 2-D    *)
(*           array (stride 3); conjugation cx/cy in {N,C} (dot only)       *)
(* Sizes are the LOGICAL sizes of the operation (m,n,k).                   *)
(***************************************************************************)
EXTENDS Integers, Sequences, FiniteSets, TLC, Json

CONSTANTS Types,   \* subset of {"s","d","c","z"}
          Tier,    \* "quick" | "thorough"
          OpSel    \* operations to generate

VARIABLE c

Quick == Tier = "quick"
IsCplx(ty) == ty \in {"c", "z"}
Zero == <<0, 0>>
One == <<1, 0>>

MOps(ty) == IF IsCplx(ty) \/ ~Quick THEN {"N", "T", "J", "H"} ELSE {"N", "T"}
MPlain == {"N", "T"}
Pads == {"c", "p"}
VStr == {"u", "s2", "col"}

Triples(S) == {<<m, n, k>> : m \in S, n \in S, k \in S}
ZTriples == Triples({0, 2}) \ {<<2, 2, 2>>}
LeanTriples == Triples({1, 2}) \cup {<<1, 2, 3>>, <<3, 1, 2>>, <<2, 3, 1>>, <<3, 3, 3>>}
Big == IF Quick THEN {} ELSE {<<4, 1, 3>>, <<1, 4, 2>>, <<2, 3, 4>>, <<4, 4, 4>>, <<3, 4, 1>>}
FullTriples == Triples(1..3) \cup ZTriples \cup Big
Pairs2(S) == {<<m, n>> : m \in S, n \in S}
ZPairs == {<<0, 2>>, <<2, 0>>, <<0, 0>>}
FullPairs == Pairs2(1..3) \cup ZPairs \cup (IF Quick THEN {} ELSE {<<4, 2>>, <<1, 4>>, <<4, 4>>})
VLens == IF Quick THEN 0..3 ELSE 0..5

(* <<alpha, beta>> pairs *)
ScalR == {<<One, Zero>>, <<<<2, 0>>, <<-1, 0>>>>} \cup
         (IF Quick THEN {} ELSE {<<Zero, <<2, 0>>>>, <<<<-1, 0>>, One>>, <<<<3, 0>>, <<2, 0>>>>})
ScalC == {<<One, Zero>>, <<<<2, 1>>, <<-1, 1>>>>} \cup
         (IF Quick THEN {} ELSE {<<Zero, <<0, 1>>>>, <<<<0, 1>>, One>>, <<<<-1, 0>>, <<2, -1>>>>})
Scal(ty) == IF IsCplx(ty) THEN ScalC ELSE ScalR
Alphas(ty) == {s[1] : s \in Scal(ty)}
NzAlphas(ty) == Alphas(ty) \ {Zero}
OneScal(ty) == IF IsCplx(ty) THEN {<<<<2, 1>>, <<-1, 1>>>>} ELSE {<<<<2, 0>>, <<-1, 0>>>>}
(* herk takes real scalars *)
ScalH == {<<One, Zero>>, <<<<2, 0>>, <<-1, 0>>>>} \cup (IF Quick THEN {} ELSE {<<Zero, <<2, 0>>>>, <<<<-1, 0>>, One>>})

D == [op |-> "-", form |-> "-", ty |-> "-", ta |-> "-", pa |-> "-", tb |-> "-", pb |-> "-", tc |-> "-", pc |-> "-",
      sx |-> "-", sy |-> "-", cx |-> "N", cy |-> "N", m |-> 0, n |-> 0, k |-> 0, alpha |-> One, beta |-> Zero,
      side |-> "-", fill |-> "-", diag |-> "-"]

(* ------------------------------------------------------------------ gemm *)
GemmForms == {"inplace", "assign", "plus_assign", "decay", "oper", "soper"}
GemmCases(form, ty) ==
  LET HasC == form \in {"inplace", "assign", "plus_assign"}
      TC == IF form = "inplace" THEN MOps(ty) ELSE IF HasC THEN MPlain ELSE {"-"}
      PC == IF HasC THEN Pads ELSE {"-"}
      SZ(tc) == IF form = "inplace" /\ tc \in MPlain THEN FullTriples
                ELSE IF Quick THEN LeanTriples ELSE Triples(1..3) \cup ZTriples
      SC(tc) == IF form = "inplace" THEN (IF tc \in MPlain THEN Scal(ty) ELSE OneScal(ty))
                ELSE IF form = "oper" THEN {<<One, Zero>>}
                ELSE {<<a, Zero>> : a \in (IF Quick THEN {s[1] : s \in OneScal(ty)} ELSE NzAlphas(ty))}
  IN UNION {{[D EXCEPT !.op = "gemm", !.form = form, !.ty = ty, !.ta = ta, !.pa = pa, !.tb = tb, !.pb = pb, !.tc = tc, !.pc = pc,
                       !.m = sz[1], !.n = sz[2], !.k = sz[3], !.alpha = sc[1], !.beta = sc[2]] :
             ta \in MOps(ty), pa \in Pads, tb \in MOps(ty), pb \in Pads, pc \in PC, sz \in SZ(tc), sc \in SC(tc)} : tc \in TC}

(* ------------------------------------------------------------------ gemv *)
GemvForms == {"inplace", "assign", "plus_assign", "decay", "oper", "soper"}
GemvCases(form, ty) ==
  LET HasY == form \in {"inplace", "assign", "plus_assign"}
      SY == IF HasY THEN VStr ELSE {"-"}
      SC == IF form = "inplace" THEN Scal(ty) ELSE IF form = "oper" THEN {<<One, Zero>>} ELSE {<<a, Zero>> : a \in {s[1] : s \in OneScal(ty)}}
  IN {[D EXCEPT !.op = "gemv", !.form = form, !.ty = ty, !.ta = ta, !.pa = pa, !.sx = sx, !.sy = sy,
                !.m = sz[1], !.k = sz[2], !.alpha = sc[1], !.beta = sc[2]] :
      ta \in MOps(ty), pa \in Pads, sx \in VStr, sy \in SY, sz \in FullPairs, sc \in SC}

(* --------------------------------------------------------------- level 1 *)
DotForms == {"inplace", "conv", "decay", "oper"}
Conj(ty) == IF IsCplx(ty) THEN {"N", "C"} ELSE {"N"}
DotCases(form, ty) ==
  {[D EXCEPT !.op = "dot", !.form = form, !.ty = ty, !.sx = sx, !.sy = sy, !.cx = cx, !.cy = cy, !.n = n] :
   sx \in VStr, sy \in VStr, cx \in Conj(ty), cy \in Conj(ty), n \in VLens}

AxpyForms == {"inplace", "plus_assign", "minus_assign", "oper_plus", "oper_minus", "oper_plus_scaled", "oper_minus_scaled"}
AxpyCases(form, ty) ==
  LET AL == IF form \in {"oper_plus", "oper_minus"} THEN {One} ELSE Alphas(ty) IN
  {[D EXCEPT !.op = "axpy", !.form = form, !.ty = ty, !.sx = sx, !.sy = sy, !.n = n, !.alpha = a] :
   sx \in VStr, sy \in VStr, n \in VLens, a \in AL}

ScalForms == {"inplace", "oper"}
ScalCases(form, ty) ==
  {[D EXCEPT !.op = "scal", !.form = form, !.ty = ty, !.sx = sx, !.n = n, !.alpha = a] : sx \in VStr, n \in VLens, a \in Alphas(ty)}

CopyForms == {"inplace", "assign", "oper", "construct"}
CopyCases(form, ty) ==
  {[D EXCEPT !.op = "copy", !.form = form, !.ty = ty, !.sx = sx, !.sy = sy, !.n = n] :
   sx \in VStr, sy \in (IF form = "construct" THEN {"-"} ELSE VStr), n \in VLens}

SwapForms == {"inplace", "oper"}
SwapCases(form, ty) ==
  {[D EXCEPT !.op = "swap", !.form = form, !.ty = ty, !.sx = sx, !.sy = sy, !.n = n] : sx \in VStr, sy \in VStr, n \in VLens}

RedForms == {"inplace", "conv", "decay"}   \* asum, nrm2: result into a variable / conversion / unary plus
(* sx = "arr": the operand is an owning one-dimensional array instead of a view; k only numbers repetitions (fresh data) *)
RedCases(op, form, ty) ==
  \* m: the magnitude class of the data (nrm2 only): 0 plain, 1 huge, 2 tiny -- the squares overflow / underflow, the norm does not
  {[D EXCEPT !.op = op, !.form = form, !.ty = ty, !.sx = sx, !.n = n, !.k = rep, !.m = mag] :
   sx \in VStr \cup {"arr"}, n \in VLens, rep \in (IF Quick THEN 0..1 ELSE 0..3), mag \in (IF op = "nrm2" THEN 0..2 ELSE {0})}
IamaxForms == {"call", "range"}             \* iamax(x) / iamax(x.begin(), x.end())
IamaxCases(form, ty) ==
  {[D EXCEPT !.op = "iamax", !.form = form, !.ty = ty, !.sx = sx, !.n = n, !.k = rep] :
   sx \in VStr, n \in VLens, rep \in (IF Quick THEN 0..3 ELSE 0..9)}

(* ------------------------------------------------------------- herk, syrk *)
HerkForms == {"full", "nobeta", "both", "both1", "ret", "ret1"}
HerkCases(form, ty) ==
  LET HasC == form \in {"full", "nobeta", "both", "both1"}
      TA == IF IsCplx(ty) THEN MOps(ty) ELSE MPlain
      TC == IF ~HasC THEN {"-"} ELSE IF IsCplx(ty) THEN MOps(ty) ELSE MPlain
      PC == IF HasC THEN Pads ELSE {"-"}
      FL == IF form \in {"full", "nobeta"} THEN {"lower", "upper"} ELSE {"both"}
      SC == IF form = "full" THEN ScalH ELSE IF form \in {"both1", "ret1"} THEN {<<One, Zero>>} ELSE {<<<<2, 0>>, Zero>>}
  IN {[D EXCEPT !.op = "herk", !.form = form, !.ty = ty, !.ta = ta, !.pa = pa, !.tc = tc, !.pc = pc, !.fill = fl,
                !.n = sz[1], !.k = sz[2], !.alpha = sc[1], !.beta = sc[2]] :
      ta \in TA, pa \in Pads, tc \in TC, pc \in PC, fl \in FL, sz \in FullPairs, sc \in SC}

SyrkForms == {"full", "nobeta"}
SyrkCases(form, ty) ==
  LET SC == IF form = "full" THEN Scal(ty) ELSE {<<a, Zero>> : a \in {s[1] : s \in OneScal(ty)}} IN
  {[D EXCEPT !.op = "syrk", !.form = form, !.ty = ty, !.ta = ta, !.pa = pa, !.tc = tc, !.pc = pc, !.fill = fl,
             !.n = sz[1], !.k = sz[2], !.alpha = sc[1], !.beta = sc[2]] :
   ta \in MPlain, pa \in Pads, tc \in MPlain, pc \in Pads, fl \in {"lower", "upper"}, sz \in FullPairs, sc \in SC}

(* ------------------------------------------------------------------ trsm *)
TrsmForms == {"full", "nodiag", "tri", "oper"}
TrsmCases(form, ty) ==
  LET DG == IF form = "full" THEN {"N", "U"} ELSE {"N"}
      AL == IF form = "oper" THEN {One} ELSE IF form = "full" /\ ~Quick THEN NzAlphas(ty) ELSE {s[1] : s \in OneScal(ty)}
      TA == IF form = "full" THEN MOps(ty) ELSE IF IsCplx(ty) THEN {"N", "T", "H"} ELSE MPlain
      TB == IF form = "full" THEN MOps(ty) ELSE IF IsCplx(ty) THEN {"N", "T", "H"} ELSE MPlain
      TT == {tt \in TA \X TB : form = "full" \/ tt # <<"H", "H">>}   \* both operands conjugated: probed through the full form only
  IN {[D EXCEPT !.op = "trsm", !.form = form, !.ty = ty, !.ta = tt[1], !.pa = pa, !.tb = tt[2], !.pb = pb, !.side = sd, !.fill = fl,
                !.diag = dg, !.m = sz[1], !.n = sz[2], !.alpha = a] :
      tt \in TT, pa \in Pads, pb \in Pads, sd \in {"left", "right"}, fl \in {"lower", "upper"}, dg \in DG,
      sz \in FullPairs, a \in AL}

(* ------------------------------------------ the view manipulators themselves *)
ViewCases(ty) ==
  {[D EXCEPT !.op = "viewm", !.form = "read", !.ty = ty, !.ta = ta, !.pa = pa, !.m = sz[1], !.n = sz[2]] :
   ta \in {"N", "T", "J", "H"}, pa \in Pads, sz \in FullPairs}
  \cup
  {[D EXCEPT !.op = "viewv", !.form = "read", !.ty = ty, !.sx = sx, !.cx = cx, !.n = n] : sx \in VStr, cx \in {"N", "C"}, n \in VLens}

(* ------------------------------------------------------------- the lattice *)
FormsOf(op) ==
  CASE op = "gemm" -> GemmForms [] op = "gemv" -> GemvForms [] op = "dot" -> DotForms [] op = "axpy" -> AxpyForms
    [] op = "scal" -> ScalForms [] op = "copy" -> CopyForms [] op = "swap" -> SwapForms [] op \in {"asum", "nrm2"} -> RedForms
    [] op = "iamax" -> IamaxForms [] op = "herk" -> HerkForms [] op = "syrk" -> SyrkForms [] op = "trsm" -> TrsmForms
    [] op \in {"view"} -> {"read"}
AllOps == {"gemm", "gemv", "dot", "axpy", "scal", "copy", "swap", "asum", "nrm2", "iamax", "herk", "syrk", "trsm", "view"}
Groups == {<<op, form, ty>> : op \in (OpSel \cap AllOps), form \in UNION {FormsOf(o) : o \in (OpSel \cap AllOps)}, ty \in Types}
CasesOf(g) ==
  LET op == g[1] form == g[2] ty == g[3] IN
  IF form \notin FormsOf(op) THEN {}
  ELSE CASE op = "gemm" -> GemmCases(form, ty) [] op = "gemv" -> GemvCases(form, ty) [] op = "dot" -> DotCases(form, ty)
         [] op = "axpy" -> AxpyCases(form, ty) [] op = "scal" -> ScalCases(form, ty) [] op = "copy" -> CopyCases(form, ty)
         [] op = "swap" -> SwapCases(form, ty) [] op \in {"asum", "nrm2"} -> RedCases(op, form, ty) [] op = "iamax" -> IamaxCases(form, ty)
         [] op = "herk" -> HerkCases(form, ty) [] op = "syrk" -> SyrkCases(form, ty) [] op = "trsm" -> TrsmCases(form, ty)
         [] op = "view" -> ViewCases(ty)

Init == c = [stage |-> 0]
Next ==
  \/ c.stage = 0 /\ \E g \in Groups : c' = [stage |-> 1, g |-> g]
  \/ c.stage = 1 /\ \E x \in CasesOf(c.g) : c' = [stage |-> 2, case |-> x]
Spec == Init /\ [][Next]_c

EmitC == c.stage # 2 \/ PrintT(ToJson(c.case))
=============================================================================
