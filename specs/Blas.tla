-------------------------------- MODULE Blas --------------------------------
(***************************************************************************)
(* Property C13: every BLAS-backed operation of the adaptor, for every     *)
(* combination of operand views it accepts, produces the mathematical      *)
(* result on the LOGICAL contents of its operands; only cells of the       *)
(* output view change; inputs and guard cells stay intact; a combination   *)
(* may be rejected (exception / assertion / does not compile) only when it *)
(* is not one the adaptor documents as supported -- never miscomputed.     *)
(*                                                                         *)
(* Trace monitor (direction V).  One record per executed case, written by  *)
(* harness/replay_blas.cpp (which knows no expected value):                *)
(*   op, form, ty, layout descriptors (ta,pa,.. -- used only by Listed),   *)
(*   st        "ok" | "logic_error" | "exception" | "assert" | "nocompile" *)
(*             | "signal" | "terminate"                                    *)
(*   alpha, beta                  scalars handed to the call               *)
(*   A, Ad, B, Bd, x, y0 ...      logical operand values BEFORE the call,  *)
(*                                read through the very views passed to    *)
(*                                the library (matrices: rows of pairs,    *)
(*                                with dims <<rows, cols>>)                *)
(*   C1, C1d, y1, r ...           logical values of the output view (or of *)
(*                                the returned array / scalar) AFTER       *)
(*   outcells, chgout, chgin      cells of the output view(s) in their     *)
(*                                buffers; cells of the output buffers     *)
(*                                (guards included) whose bits changed;    *)
(*                                cells of input buffers that changed      *)
(*   inexact   1 when some logged number was not an integer < 2^20         *)
(*   heap      1 when bytes next to a heap block were overwritten          *)
(* All numbers are Gaussian integers <<re, im>>; the data are chosen so    *)
(* that every floating point operation of a correct evaluation is exact.   *)
(***************************************************************************)
EXTENDS Integers, Sequences, FiniteSets, TLC, Json, IOUtils

Trace == ndJsonDeserialize(IOEnv.TRACE)

VARIABLE pos
R == Trace[pos]

(* ------------------------------------------------------ Gaussian integers *)
Zero == <<0, 0>>
One == <<1, 0>>
CAdd(a, b) == <<a[1] + b[1], a[2] + b[2]>>
CSub(a, b) == <<a[1] - b[1], a[2] - b[2]>>
CMul(a, b) == <<a[1] * b[1] - a[2] * b[2], a[1] * b[2] + a[2] * b[1]>>
CNeg(a) == <<-a[1], -a[2]>>
CConj(a) == <<a[1], -a[2]>>
IAbs(v) == IF v < 0 THEN -v ELSE v
Cabs1(a) == IAbs(a[1]) + IAbs(a[2])
Norm2(a) == a[1] * a[1] + a[2] * a[2]
RECURSIVE CSumSeq(_)
CSumSeq(s) == IF s = <<>> THEN Zero ELSE CAdd(Head(s), CSumSeq(Tail(s)))
RECURSIVE ISumSeq(_)
ISumSeq(s) == IF s = <<>> THEN 0 ELSE Head(s) + ISumSeq(Tail(s))
SeqRange(s) == {s[i] : i \in 1..Len(s)}

(* -------------------------------------------------- matrices and vectors *)
(* a matrix is a sequence of rows; its dims <<r, c>> travel separately     *)
(* because an r x 0 matrix and a 0 x c matrix have no elements to count    *)
MatOf(d, F(_, _)) == [i \in 1..d[1] |-> [j \in 1..d[2] |-> F(i, j)]]
WellFormed(M, d) == d[1] >= 0 /\ d[2] >= 0 /\ Len(M) = d[1] /\ \A i \in 1..d[1] : Len(M[i]) = d[2]
OpDims(t, d) == IF t \in {"N", "J"} THEN d ELSE <<d[2], d[1]>>
(* what blas::N / T / J / H of a block must show *)
OpMat(t, M, d) ==
  MatOf(OpDims(t, d), LAMBDA i, j : IF t = "N" THEN M[i][j] ELSE IF t = "T" THEN M[j][i]
                                    ELSE IF t = "J" THEN CConj(M[i][j]) ELSE CConj(M[j][i]))
(* P = A.B for A m x k, B k x n *)
MatMul(A, B, m, k, n) == MatOf(<<m, n>>, LAMBDA i, j : CSumSeq([q \in 1..k |-> CMul(A[i][q], B[q][j])]))
Scale(a, M, d) == MatOf(d, LAMBDA i, j : CMul(a, M[i][j]))
InTri(fill, i, j) == fill = "both" \/ (fill = "lower" /\ i >= j) \/ (fill = "upper" /\ i <= j)

IsReal == R.ty \in {"s", "d"}
(* for real element types blas::J is the identity and blas::H is blas::T *)
NormT(t) == IF IsReal THEN (IF t = "J" THEN "N" ELSE IF t = "H" THEN "T" ELSE t) ELSE t

(* ------------------------------------------------------------------ gemm *)
(* C <- alpha.A.B + beta.C ; forms: assign / decay / A*B set beta = 0,     *)
(* C += gemm(..) sets beta = 1, A*B has alpha = 1                          *)
GemmHasC == R.form \in {"inplace", "assign", "plus_assign"}
GemmAlpha == IF R.form = "oper" THEN One ELSE R.alpha
GemmBeta == IF R.form = "inplace" THEN R.beta ELSE IF R.form = "plus_assign" THEN One ELSE Zero
GemmDimsOK == /\ WellFormed(R.A, R.Ad) /\ WellFormed(R.B, R.Bd) /\ R.Ad[2] = R.Bd[1]
              /\ (GemmHasC => WellFormed(R.C0, R.Cd) /\ R.Cd = <<R.Ad[1], R.Bd[2]>>)
GemmMath ==
  LET m == R.Ad[1] k == R.Ad[2] n == R.Bd[2]
      P == MatMul(R.A, R.B, m, k, n)
      E == MatOf(<<m, n>>, LAMBDA i, j : CAdd(CMul(GemmAlpha, P[i][j]), IF GemmBeta = Zero THEN Zero ELSE CMul(GemmBeta, R.C0[i][j])))
  IN R.C1d = <<m, n>> /\ R.C1 = E
(* documented as supported (README table of features): C a plain matrix,   *)
(* (A,B) in N/T/H except H.T; J operands are "not BLAS-implemented"        *)
GemmListed ==
  LET ta == NormT(R.ta) tb == NormT(R.tb) IN
  /\ (GemmHasC => NormT(R.tc) = "N")
  /\ <<ta, tb>> \in {<<"N", "N">>, <<"N", "T">>, <<"T", "N">>, <<"T", "T">>, <<"N", "H">>, <<"H", "N">>, <<"H", "H">>, <<"T", "H">>}

(* ------------------------------------------------------------------ gemv *)
GemvHasY == R.form \in {"inplace", "assign", "plus_assign"}
GemvAlpha == IF R.form = "oper" THEN One ELSE R.alpha
GemvBeta == IF R.form = "inplace" THEN R.beta ELSE IF R.form = "plus_assign" THEN One ELSE Zero
GemvDimsOK == WellFormed(R.A, R.Ad) /\ Len(R.x) = R.Ad[2] /\ (GemvHasY => Len(R.y0) = R.Ad[1])
GemvMath ==
  LET m == R.Ad[1] k == R.Ad[2]
      E == [i \in 1..m |-> CAdd(CMul(GemvAlpha, CSumSeq([q \in 1..k |-> CMul(R.A[i][q], R.x[q])])),
                                IF GemvBeta = Zero THEN Zero ELSE CMul(GemvBeta, R.y0[i]))]
  IN R.y1 = E
GemvListed == NormT(R.ta) \in {"N", "T", "J"}

(* --------------------------------------------------------------- level 1 *)
DotDimsOK == Len(R.x) = Len(R.y)
DotMath == R.r = CSumSeq([q \in 1..Len(R.x) |-> CMul(R.x[q], R.y[q])])    \* x, y as seen through C(.) when conjugated
DotListed == ~(R.cx = "C" /\ R.cy = "C")

AxpyAlpha == CASE R.form \in {"inplace", "plus_assign", "oper_plus_scaled"} -> R.alpha
               [] R.form \in {"minus_assign", "oper_minus_scaled"} -> CNeg(R.alpha)
               [] R.form = "oper_plus" -> One
               [] R.form = "oper_minus" -> CNeg(One)
AxpyDimsOK == Len(R.x) = Len(R.y0)
AxpyMath == R.y1 = [q \in 1..Len(R.x) |-> CAdd(CMul(AxpyAlpha, R.x[q]), R.y0[q])]

ScalMath == R.x1 = [q \in 1..Len(R.x0) |-> CMul(R.alpha, R.x0[q])]
CopyDimsOK == R.form = "construct" \/ Len(R.x) = Len(R.y0)
CopyMath == R.y1 = R.x
SwapDimsOK == Len(R.x0) = Len(R.y0)
SwapMath == R.x1 = R.y0 /\ R.y1 = R.x0
AsumMath == R.r = <<ISumSeq([q \in 1..Len(R.x) |-> Cabs1(R.x[q])]), 0>>
(* nrm2: the result is logged in fixed point, rfx = floor(256 r); r*r must be the sum of |x_i|^2 within a coarse tolerance *)
Nrm2Math ==
  LET S == ISumSeq([q \in 1..Len(R.x) |-> Norm2(R.x[q])])
      D == R.rfx * R.rfx - 65536 * S
  IN R.rfx >= 0 /\ IAbs(D) <= 4 * R.rfx + 16
(* iamax: zero-based index of an element of largest absolute value; the README does not say which absolute value for *)
(* complex elements (BLAS uses |re|+|im|), so a maximiser of either is accepted; any one of several maximisers is    *)
IamaxMath ==
  LET n == Len(R.x) IN
  n = 0 \/ ( /\ R.ri \in 0..(n - 1)
             /\ \/ \A q \in 1..n : Cabs1(R.x[R.ri + 1]) >= Cabs1(R.x[q])
                \/ \A q \in 1..n : Norm2(R.x[R.ri + 1]) >= Norm2(R.x[q]) )

(* ------------------------------------------------------------- herk, syrk *)
(* C <- alpha.A.A^H + beta.C (herk) or alpha.A.A^T + beta.C (syrk) on the selected triangle of the view C; the other *)
(* triangle keeps its value.  A is n x k.  Forms without fill do both triangles, forms without beta have beta = 0.    *)
RkHasC == R.form \in {"full", "nobeta", "both", "both1"}
RkAlpha == IF R.form \in {"both1", "ret1"} THEN One ELSE R.alpha
RkBeta == IF R.form = "full" THEN R.beta ELSE Zero
RkFill == IF R.form \in {"full", "nobeta"} THEN R.fill ELSE "both"
RkDimsOK == WellFormed(R.A, R.Ad) /\ (RkHasC => WellFormed(R.C0, R.Cd) /\ R.Cd = <<R.Ad[1], R.Ad[1]>>)
RkMath(herm) ==
  LET n == R.Ad[1] k == R.Ad[2]
      G(i, j) == CSumSeq([q \in 1..k |-> CMul(R.A[i][q], IF herm THEN CConj(R.A[j][q]) ELSE R.A[j][q])])
      E == MatOf(<<n, n>>, LAMBDA i, j : IF InTri(RkFill, i, j)
                                        THEN CAdd(CMul(RkAlpha, G(i, j)), IF RkBeta = Zero THEN Zero ELSE CMul(RkBeta, R.C0[i][j]))
                                        ELSE R.C0[i][j])
  IN R.C1d = <<n, n>> /\ R.C1 = E
(* the README's table has no herk/syrk rows; the plain call on plain matrices is taken as the supported core *)
RkListed == NormT(R.ta) = "N" /\ (RkHasC => NormT(R.tc) = "N")

(* ------------------------------------------------------------------ trsm *)
(* B <- X with tri(A).X = alpha.B (left) or X.tri(A) = alpha.B (right); tri(A) is the `fill` triangle of the view A   *)
(* (unit diagonal when diag = "U").  Checked by multiplication; tri(A) must be non-singular for X to be determined.   *)
TrsmAlpha == IF R.form = "oper" THEN One ELSE R.alpha
TrsmDiag == IF R.form = "full" THEN R.diag ELSE "N"
TrsmN == R.Ad[1]
TriA == MatOf(R.Ad, LAMBDA i, j : IF i = j THEN (IF TrsmDiag = "U" THEN One ELSE R.A[i][i])
                                   ELSE IF InTri(R.fill, i, j) THEN R.A[i][j] ELSE Zero)
TrsmDimsOK == /\ WellFormed(R.A, R.Ad) /\ WellFormed(R.B0, R.Bd) /\ R.Ad[1] = R.Ad[2]
              /\ (IF R.side = "left" THEN R.Ad[1] = R.Bd[1] ELSE R.Ad[1] = R.Bd[2])
              /\ \A i \in 1..R.Ad[1] : TriA[i][i] # Zero
TrsmMath ==
  LET m == R.Bd[1] n == R.Bd[2]
      P == IF R.side = "left" THEN MatMul(TriA, R.B1, m, m, n) ELSE MatMul(R.B1, TriA, m, n, n)
  IN WellFormed(R.B1, R.Bd) /\ P = Scale(TrsmAlpha, R.B0, R.Bd)
(* README: trsm(side, alpha, U(A)|L(A), B) for plain A, B and both sides, and side::right with H(B) *)
TrsmListed == NormT(R.ta) = "N" /\ (NormT(R.tb) = "N" \/ (NormT(R.tb) = "H" /\ R.side = "right"))

(* ----------------------------------------------------- view manipulators *)
ViewmMath == R.Vd = OpDims(R.ta, R.rawd) /\ R.V = OpMat(R.ta, R.raw, R.rawd)
ViewvMath == R.V = [q \in 1..Len(R.raw) |-> IF R.cx = "C" THEN CConj(R.raw[q]) ELSE R.raw[q]]

(* ---------------------------------------------------------------- verdict *)
Ops == {"gemm", "gemv", "dot", "axpy", "scal", "copy", "swap", "asum", "nrm2", "iamax", "herk", "syrk", "trsm", "viewm", "viewv"}
Rejected == R.st \in {"logic_error", "exception", "assert", "nocompile"}
Crashed == R.st \notin {"ok", "logic_error", "exception", "assert", "nocompile"}
(* inputs unchanged, guard cells and everything else outside the output view unchanged *)
(* heap = 1: a pad next to a heap block (e.g. the array a functional form returns) was overwritten *)
Frame == R.st = "nocompile" \/ (R.chgin = <<>> /\ SeqRange(R.chgout) \subseteq SeqRange(R.outcells) /\ R.heap = 0)

DimsOK ==
  CASE R.op = "gemm" -> GemmDimsOK [] R.op = "gemv" -> GemvDimsOK [] R.op = "dot" -> DotDimsOK [] R.op = "axpy" -> AxpyDimsOK
    [] R.op = "copy" -> CopyDimsOK [] R.op = "swap" -> SwapDimsOK [] R.op \in {"herk", "syrk"} -> RkDimsOK [] R.op = "trsm" -> TrsmDimsOK
    [] OTHER -> TRUE
Math ==
  CASE R.op = "gemm" -> GemmMath [] R.op = "gemv" -> GemvMath [] R.op = "dot" -> DotMath [] R.op = "axpy" -> AxpyMath
    [] R.op = "scal" -> ScalMath [] R.op = "copy" -> CopyMath [] R.op = "swap" -> SwapMath [] R.op = "asum" -> AsumMath
    [] R.op = "nrm2" -> Nrm2Math [] R.op = "iamax" -> IamaxMath [] R.op = "herk" -> RkMath(TRUE) [] R.op = "syrk" -> RkMath(FALSE)
    [] R.op = "trsm" -> TrsmMath [] R.op = "viewm" -> ViewmMath [] R.op = "viewv" -> ViewvMath
Listed ==
  CASE R.op = "gemm" -> GemmListed [] R.op = "gemv" -> GemvListed [] R.op = "dot" -> DotListed
    [] R.op \in {"herk", "syrk"} -> RkListed [] R.op = "trsm" -> TrsmListed
    [] OTHER -> TRUE

(* "good" | "rejected" (acceptably) | "malformed" (operands do not meet the operation's size precondition: no demand) | a complaint *)
Verdict ==
  IF R.op \notin Ops THEN "unknown operation"
  ELSE IF Crashed THEN "crash"
  ELSE IF ~Frame THEN "frame"
  ELSE IF R.st # "nocompile" /\ ~DimsOK THEN "malformed"
  ELSE IF Rejected THEN (IF Listed THEN "rejected-supported" ELSE "rejected")
  ELSE IF R.inexact # 0 THEN "inexact"
  ELSE IF Math THEN "good" ELSE "math"

Init == pos = 1
Step ==
  /\ pos <= Len(Trace)
  /\ pos' = pos + 1
  /\ LET v == Verdict IN
     \/ v = "good"
     \/ PrintT(ToJson([id |-> R.id, verdict |-> v]))
Spec == Init /\ [][Step]_pos
Consumed == TLCGet("stats").diameter - 1 = Len(Trace)
=============================================================================
