------------------------------ MODULE Constness ------------------------------
(***************************************************************************)
(* Property C16: const-ness propagates along access paths.                 *)
(*                                                                         *)
(* A state is the static description of an expression: its category        *)
(* (view, iterator, elements range, elements iterator, cursor, element),   *)
(* its dimensionality and w = "an element reached through it is            *)
(* writable".  A step is one access-path operation.  The rule of the       *)
(* property is a one-liner: w' = w /\ ~ConstForcing(step) -- nothing       *)
(* reachable from a read-only expression becomes writable again, and       *)
(* everything reachable from a writable one stays writable unless the      *)
(* step itself forces const (cbegin/cend, as_const, broadcasted, a         *)
(* by-value element_transformed).  TLC enumerates every path within the    *)
(* bound with its prescribed (category, dimensionality, w); each path      *)
(* becomes a C++ expression whose real type is observed at compile time.   *)
(***************************************************************************)
EXTENDS Integers, Sequences, FiniteSets, TLC, Json

CONSTANTS Dims,       \* dimensionalities of the start objects
          StartKinds, \* subset of Starts below
          MaxLen,     \* path length
          MaxViewD,   \* views of more dimensions are not extended
          CEmit

Starts == { [name |-> "array",            w |-> TRUE ],
            [name |-> "array_const",      w |-> FALSE],
            [name |-> "static_array",     w |-> TRUE ],
            [name |-> "static_array_const", w |-> FALSE],
            [name |-> "array_ref",        w |-> TRUE ],
            [name |-> "array_ref_const",  w |-> FALSE],
            [name |-> "view_autorr",      w |-> TRUE ],    \* auto&& v = A(...)
            [name |-> "view_constref",    w |-> FALSE],    \* auto const& v = A(...)
            [name |-> "view_of_const_autorr", w |-> FALSE] \* auto&& v = Aconst(...)
          }

VARIABLES start, d0, cat, dim, w, steps
cvars == <<start, d0, cat, dim, w, steps>>

ViewKeepD == {"call0", "callrng", "callall", "rotated", "unrotated", "reversed", "sliced", "strided", "dropped", "taked",
              "reindexed", "blocked", "stenciled", "range", "sliced3",
              "transformed_ref",   \* element_transformed(f) with f returning a reference to (part of) the element: still the elements
              "addrderef",     \* *(&x): through the pointer-to-view and back
              "rebuilt"}       \* subarray<T, D>(x.begin(), x.end()): a view re-assembled from its iterators
ViewNeeds2KeepDMore == {"reindexed2"}
ViewNeeds2KeepD == {"transposed", "tilde"}
ViewNeeds2LessD == {"diagonal", "flatted"}
ViewMoreD == {"partitioned", "chunked"}
ConstForcingSteps == {"cbegin", "cend", "as_const", "broadcasted", "transformed"}

(* successor description of one step, or "none" when the step does not apply to the category *)
Succ(c, d, s) ==
  CASE c = "view" /\ s \in {"idx", "callidx", "front", "back"} -> IF d > 1 THEN [cat |-> "view", dim |-> d - 1] ELSE [cat |-> "element", dim |-> 0]
    \* call syntax with several integer indices
    [] c = "view" /\ s = "callidx2" /\ d >= 2 -> IF d > 2 THEN [cat |-> "view", dim |-> d - 2] ELSE [cat |-> "element", dim |-> 0]
    [] c = "view" /\ s = "callidx3" /\ d >= 3 -> IF d > 3 THEN [cat |-> "view", dim |-> d - 3] ELSE [cat |-> "element", dim |-> 0]
    [] c = "view" /\ s = "callidx4" /\ d >= 4 -> IF d > 4 THEN [cat |-> "view", dim |-> d - 4] ELSE [cat |-> "element", dim |-> 0]
    [] c = "view" /\ s = "callidx5" /\ d >= 5 -> IF d > 5 THEN [cat |-> "view", dim |-> d - 5] ELSE [cat |-> "element", dim |-> 0]
    [] c = "view" /\ s = "callmix" /\ d >= 2 -> [cat |-> "view", dim |-> d - 1]
    [] c = "view" /\ s \in ViewKeepD -> [cat |-> "view", dim |-> d]
    [] c = "view" /\ s \in (ViewNeeds2KeepD \cup ViewNeeds2KeepDMore) /\ d >= 2 -> [cat |-> "view", dim |-> d]
    [] c = "view" /\ s \in ViewNeeds2LessD /\ d >= 2 -> [cat |-> "view", dim |-> d - 1]
    [] c = "view" /\ s \in ViewMoreD /\ d < MaxViewD -> [cat |-> "view", dim |-> d + 1]
    [] c = "view" /\ s \in {"as_const", "transformed"} -> [cat |-> "view", dim |-> d]
    [] c = "view" /\ s = "broadcasted" /\ d < MaxViewD -> [cat |-> "view", dim |-> d + 1]
    [] c = "view" /\ s \in {"begin", "end", "cbegin", "cend"} -> [cat |-> "iterator", dim |-> d]
    [] c = "view" /\ s = "elements" -> [cat |-> "erange", dim |-> d]
    [] c = "view" /\ s = "home" -> [cat |-> "cursor", dim |-> d]
    [] c = "iterator" /\ s \in {"deref", "itidx", "arrow"} -> IF d > 1 THEN [cat |-> "view", dim |-> d - 1] ELSE [cat |-> "element", dim |-> 0]
    [] c = "iterator" /\ s = "itplus" -> [cat |-> "iterator", dim |-> d]
    [] c = "erange" /\ s = "ebegin" -> [cat |-> "eiter", dim |-> d]
    [] c = "erange" /\ s \in {"eidx", "efront", "eback"} -> [cat |-> "element", dim |-> 0]
    [] c = "eiter" /\ s = "ederef" -> [cat |-> "element", dim |-> 0]
    [] c = "cursor" /\ s = "cidx" -> IF d > 1 THEN [cat |-> "cursor", dim |-> d - 1] ELSE [cat |-> "element", dim |-> 0]
    [] OTHER -> [cat |-> "none", dim |-> 0]

AllSteps == {"idx", "callidx", "callidx2", "callidx3", "callidx4", "callidx5", "callmix", "front", "back"} \cup ViewKeepD \cup ViewNeeds2KeepD \cup ViewNeeds2KeepDMore \cup ViewNeeds2LessD \cup ViewMoreD
            \cup {"arrow"}   \* *(it.operator->()): the item reached through the iterator's arrow
            \cup {"as_const", "transformed", "broadcasted", "begin", "end", "cbegin", "cend", "elements", "home",
                  "deref", "itidx", "itplus", "ebegin", "eidx", "efront", "eback", "ederef", "cidx"}

KInit ==
  /\ start \in {s \in Starts : s.name \in StartKinds}
  /\ d0 \in Dims
  /\ cat = "view" /\ dim = d0 /\ w = start.w /\ steps = <<>>

KNext ==
  /\ Len(steps) < MaxLen
  /\ \E s \in AllSteps :
       LET n == Succ(cat, dim, s) IN
       /\ n.cat # "none"
       \* a function taking T& cannot be applied to read-only elements (a hard error, not a rejection the detection idiom can see)
       /\ (s = "transformed_ref" => w)
       /\ cat' = n.cat /\ dim' = n.dim
       /\ w' = (w /\ s \notin ConstForcingSteps)
       /\ steps' = Append(steps, s)
  /\ UNCHANGED <<start, d0>>

KSpec == KInit /\ [][KNext]_cvars

(* the property on the model: writability never comes back *)
NoEscalation == [][~w => ~w']_cvars

KExpect == [start |-> start.name, D |-> d0, steps |-> steps, cat |-> cat, dim |-> dim, w |-> IF w THEN 1 ELSE 0]
KEmitC == (~CEmit) \/ steps = <<>> \/ PrintT(ToJson(KExpect))
=============================================================================
