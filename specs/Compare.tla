------------------------------- MODULE Compare -------------------------------
(***************************************************************************)
(* Property C07: equality and ordering of arrays and views.                *)
(*                                                                         *)
(* An operand is a value [shape, val] (zero-based, flat element sequence   *)
(* in canonical order).  Eq and Lt are the documented meanings:            *)
(*   a == b  iff same extents and equal elements at every index tuple      *)
(*   a <  b  lexicographic over the leading dimension, recursively;        *)
(*           a proper prefix is smaller                                    *)
(* All triples within the bounds are initial states; TLC checks the order  *)
(* laws on the model and emits every pair with the six prescribed          *)
(* operator results; the replayer materialises each pair in several        *)
(* ownership kinds / layouts and evaluates the real operators.             *)
(***************************************************************************)
EXTENDS Integers, Sequences, FiniteSets, TLC, Json, MultiSem

CONSTANTS
  CD,        \* dimensionality
  CMaxExt,   \* extents 0..CMaxExt
  CVals,     \* element values
  CMaxNE,    \* operands with more elements are skipped
  WithC,   \* TRUE: enumerate triples (laws); FALSE: pairs only (c = a)
  CEmit,
  DoubleSem  \* TRUE: the values are read as floating-point numbers: 2 stands for -0.0 (equal to 0, which is +0.0),
             \* 3 for a NaN (equal to nothing, not even itself; unordered) and 4 for 0.5

VARIABLES a, b, c
cvars == <<a, b, c>>

RECURSIVE CSeqs(_, _)
CSeqs(S, n) == IF n = 0 THEN {<<>>} ELSE {<<x>> \o s : x \in S, s \in CSeqs(S, n - 1)}

Shapes == {sh \in CSeqs(0..CMaxExt, CD) : Prod(sh) <= CMaxNE}
Operands == UNION {{[shape |-> sh, val |-> v] : v \in CSeqs(CVals, Prod(sh))} : sh \in Shapes}

(* the i-th sub-array (zero-based) of an operand of dimensionality >= 1 *)
Sub(x, i) ==
  LET m == Prod(Tail(x.shape)) IN
  [shape |-> Tail(x.shape), val |-> SubSeq(x.val, i * m + 1, (i + 1) * m)]

\* (compared on the doubled scale: 0 -> 0, 0.5 (the abstract value 4) -> 1, 1 -> 2)
Norm(u)  == IF ~DoubleSem THEN u ELSE IF u = 2 THEN 0 ELSE IF u = 4 THEN 1 ELSE 2 * u
IsNaN(u) == DoubleSem /\ u = 3
VEq(u, v) == ~IsNaN(u) /\ ~IsNaN(v) /\ Norm(u) = Norm(v)
VLt(u, v) == ~IsNaN(u) /\ ~IsNaN(v) /\ Norm(u) < Norm(v)
HasNaN(x) == \E i \in 1..Len(x.val) : IsNaN(x.val[i])

Eq(x, y) == x.shape = y.shape /\ \A i \in 1..Len(x.val) : VEq(x.val[i], y.val[i])

RECURSIVE Lt(_, _)
Lt(x, y) ==
  IF x.shape = <<>> THEN VLt(x.val[1], y.val[1])
  ELSE LET nx == x.shape[1]  ny == y.shape[1]  n == Min2(nx, ny)
           \* first position where the items differ in the order
           Diff == {k \in 0..(n - 1) : Lt(Sub(x, k), Sub(y, k)) \/ Lt(Sub(y, k), Sub(x, k))}
       IN IF Diff = {} THEN nx < ny
          ELSE LET k == CHOOSE k \in Diff : \A j \in Diff : k <= j IN Lt(Sub(x, k), Sub(y, k))

Le(x, y) == Lt(x, y) \/ Eq(x, y)
Gt(x, y) == Lt(y, x)
Ge(x, y) == Lt(y, x) \/ Eq(x, y)

NonEmpty(x) == Prod(x.shape) > 0 /\ ~HasNaN(x)    \* "ordered": the order laws are stated for operands with totally ordered elements

CInit == a \in Operands /\ b \in Operands /\ c \in (IF WithC THEN Operands ELSE {a})
CNext == UNCHANGED cvars
CSpec == CInit /\ [][CNext]_cvars

-----------------------------------------------------------------------------
(* the laws of the property, checked on the model for every triple *)
Trichotomy ==
  (NonEmpty(a) /\ NonEmpty(b)) =>
     Cardinality({k \in 1..3 : (k = 1 /\ Lt(a, b)) \/ (k = 2 /\ Eq(a, b)) \/ (k = 3 /\ Lt(b, a))}) = 1
Irreflexive == ~Lt(a, a)
EqReflexiveUnlessNaN == HasNaN(a) \/ Eq(a, a)
Antisymmetric == ~(Lt(a, b) /\ Lt(b, a))
Transitive == (NonEmpty(a) /\ NonEmpty(b) /\ NonEmpty(c)) => ((Lt(a, b) /\ Lt(b, c)) => Lt(a, c))
EqTransitive == (Eq(a, b) /\ Eq(b, c)) => Eq(a, c)
LeGeConsistent ==
  (NonEmpty(a) /\ NonEmpty(b)) => (Le(a, b) <=> ~Lt(b, a)) /\ (Ge(a, b) <=> ~Lt(a, b))

B(x) == IF x THEN 1 ELSE 0
CExpect == [D |-> CD, a |-> a, b |-> b,
            ops |-> <<B(Eq(a, b)), B(~Eq(a, b)), B(Lt(a, b)), B(Le(a, b)), B(Gt(a, b)), B(Ge(a, b))>>,
            ordered |-> B(NonEmpty(a) /\ NonEmpty(b)),
            nan |-> B(HasNaN(a) \/ HasNaN(b))]
CEmitC == (~CEmit) \/ PrintT(ToJson(CExpect))
=============================================================================
