------------------------------- MODULE Lapack -------------------------------
(***************************************************************************)
(* Property C14 -- LAPACK adaptor: factorizations reconstruct their input  *)
(* for every accepted view; only the documented outputs are overwritten.   *)
(*                                                                         *)
(* Trace monitor (direction V).  Every line of the trace is one call of    *)
(* the adaptor on the real library:                                        *)
(*   - the case descriptor chosen by LapackGen.tla (routine, orientation,  *)
(*     padding, sizes, triangle, planted pivot) with the concrete operand  *)
(*     descriptors  [orient, pad, R, C, r0, c0, m, n, G]:  the operand is  *)
(*     the m x n view of an R x C row-major array that sits between two    *)
(*     guard zones of G cells; orient = "row": rows r0.., columns c0..;    *)
(*     orient = "col": the transpose ~X of the n x m block X at (r0, c0);  *)
(*   - every buffer, whole (guards, padding, view), before and after the   *)
(*     call, as fixed-point integers round(x * 4096), real and imaginary   *)
(*     parts separately;                                                   *)
(*   - how the call ended ("ok", "reject" = assertion/exception, "crash")  *)
(*     and, for potrf, the returned view (sizes and cells).                *)
(* Which cell of a buffer is element (i, j) of a view is prescribed HERE   *)
(* (Cell) and not taken from the implementation; the cells the harness     *)
(* observed are only cross-checked (verdict "harness_layout").             *)
(*                                                                         *)
(* The view-level requirements:                                            *)
(*  potrf(uplo, A)   data: integer (Gaussian integer) Hermitian matrices   *)
(*      whose Cholesky factor is integer with a power-of-two diagonal, so  *)
(*      that the factorization is exact in floating point.  With H the     *)
(*      Hermitian completion of the uplo triangle of the input and k the   *)
(*      order of its largest positive definite leading block (Chol, below):*)
(*      the returned view has k rows and starts at A(0,0); the uplo        *)
(*      triangle T of the leading k x k block of the output satisfies      *)
(*      T.T^H = H[1..k,1..k] (lower) or T^H.T = H[1..k,1..k] (upper),      *)
(*      EXACTLY; nothing outside the uplo triangle of the view changes     *)
(*      (other triangle, padding, guards).                                 *)
(*  geqrf(A, tau)    with R = upper trapezoid of the output, v_i = column  *)
(*      i below the diagonal (unit diagonal implied), H_i = I - tau_i v_i  *)
(*      v_i^T:  H_1...H_k R = A0 within TolD, every H_i orthogonal.  The   *)
(*      adaptor does not document whether it factors the view or its       *)
(*      transpose (it passes a row-major view to the column-major routine, *)
(*      which amounts to the latter), so either reading is accepted.  Only *)
(*      cells of the view and of tau change.                               *)
(*  gesvd(A, U, s, W) A0 = U.diag(s).W within TolD (the third output is    *)
(*      V^T: template parameter VTArray2D), s non-negative non-increasing, *)
(*      U^T.U = I, W.W^T = I within TolU.  Only cells of the four operand  *)
(*      views change (A is documented as destroyed); gesvd(A const&)       *)
(*      changes nothing of A.                                              *)
(* Views the routine must accept: every orientation for potrf (the adaptor *)
(* dispatches on the stride), unit-inner-stride ("row") operands for geqrf *)
(* and gesvd.  Other operands may be rejected (assertion, exception); if   *)
(* they are accepted the same requirements hold.                           *)
(*                                                                         *)
(* Arithmetic: TLC has 32-bit integers.  Logged numbers are scaled by      *)
(* S = 4096.  Quantities bounded by 1 (reflectors, tau/2, U, W) are used   *)
(* at scale S, data-sized ones (R, s, A; bounded by 64) at scale DS = 256, *)
(* and every product is rescaled at once; range checks precede every       *)
(* multiplication so that no intermediate reaches 2^31.                    *)
(***************************************************************************)
EXTENDS Integers, Sequences, FiniteSets, TLC, Json, IOUtils

Trace == ndJsonDeserialize(IOEnv.TRACE)

VARIABLE l
E == Trace[l]                        \* the record being validated

S    == 4096                         \* scale of the logged numbers
DS   == 256                          \* working scale of data-sized quantities
MaxExact == 8                        \* largest size for which the reconstruction identities are evaluated
TolD == 16                           \* |reconstruction - input| <= 16/256 = 2^-7 * (entry bound 8); observed <= 2/256
TolU == S \div 64                    \* orthogonality defects <= 2^-6
UnitB == S + S \div 64               \* bound of quantities that are at most 1 in magnitude
DataB == 64 * S                      \* bound of data-sized quantities (entries <= 8, sizes <= 6: norms <= 48)

Abs(x)     == IF x < 0 THEN -x ELSE x
Min2(a, b) == IF a < b THEN a ELSE b
RDiv(x, q) == (2 * x + q) \div (2 * q)          \* x / q rounded to nearest, q > 0
ToD(x)     == RDiv(x, S \div DS)                 \* scale S -> scale DS

RECURSIVE SumN(_, _)
SumN(f, n) == IF n = 0 THEN 0 ELSE f[n] + SumN(f, n - 1)

(* complex numbers as pairs *)
CAdd(a, b) == <<a[1] + b[1], a[2] + b[2]>>
CSub(a, b) == <<a[1] - b[1], a[2] - b[2]>>
CMul(a, b) == <<a[1] * b[1] - a[2] * b[2], a[1] * b[2] + a[2] * b[1]>>
CConj(a)   == <<a[1], -a[2]>>
RECURSIVE CSumN(_, _)
CSumN(f, n) == IF n = 0 THEN <<0, 0>> ELSE CAdd(f[n], CSumN(f, n - 1))

(* ------------------------------------------------------------------ views and buffers *)
DescOK(d) ==
  /\ d.m >= 1 /\ d.n >= 1 /\ d.r0 >= 0 /\ d.c0 >= 0 /\ d.G >= 0 /\ d.orient \in {"row", "col"} /\ d.pad \in {0, 1}
  /\ LET br == IF d.orient = "row" THEN d.m ELSE d.n       \* the block of the parent array
         bc == IF d.orient = "row" THEN d.n ELSE d.m
     IN /\ d.r0 + br <= d.R /\ d.c0 + bc <= d.C
        /\ d.pad = 0 => (d.r0 = 0 /\ d.c0 = 0 /\ d.R = br /\ d.C = bc)
        /\ d.pad = 1 => (d.C > bc \/ d.R > br)            \* a padded view is a proper sub-block (mostly with a larger leading dimension)

Cell(d, i, j) ==    \* zero-based buffer cell of element (i, j), i in 1..m, j in 1..n
  d.G + d.r0 * d.C + d.c0 + (IF d.orient = "row" THEN (i - 1) * d.C + (j - 1) ELSE (i - 1) + (j - 1) * d.C)

ViewCells(d)  == {Cell(d, i, j) : i \in 1..d.m, j \in 1..d.n}
BufLen(d)     == 2 * d.G + d.R * d.C
At(buf, c)    == buf[c + 1]
Mat(d, buf)   == [i \in 1..d.m |-> [j \in 1..d.n |-> At(buf, Cell(d, i, j))]]
Observed(d, cells) ==
  /\ Len(cells) = d.m
  /\ \A i \in 1..d.m : Len(cells[i]) = d.n /\ \A j \in 1..d.n : cells[i][j] = Cell(d, i, j)

Frame(b0, b1, allowed) ==     \* cells outside `allowed` keep their value
  /\ Len(b1) = Len(b0)
  /\ \A c \in 1..Len(b0) : (c - 1) \notin allowed => b1[c] = b0[c]
VecCells(g, k) == g..(g + k - 1)

Transp(M, p, q) == [i \in 1..q |-> [j \in 1..p |-> M[j][i]]]     \* M is p x q

(* ------------------------------------------------------------------------------ potrf *)
PA == E.A
PN == PA.m      \* the order: the number of rows of the view (m <= n; the columns beyond m are not part of the matrix)
Sel(i, j) == IF E.uplo = "L" THEN j <= i ELSE i <= j
SelCells  == {Cell(PA, q[1], q[2]) : q \in {r \in (1..PN) \X (1..PN) : Sel(r[1], r[2])}}
Pre(i, j)  == <<At(E.A0, Cell(PA, i, j)), At(E.A0i, Cell(PA, i, j))>>
Post(i, j) == <<At(E.A1, Cell(PA, i, j)), At(E.A1i, Cell(PA, i, j))>>

PotrfDataOK ==      \* the input is in the exact class: (Gaussian) integers, real diagonal
  \A i, j \in 1..PN : Sel(i, j) =>
     /\ Pre(i, j)[1] % S = 0 /\ Pre(i, j)[2] % S = 0
     /\ Abs(Pre(i, j)[1]) <= 255 * S /\ Abs(Pre(i, j)[2]) <= 255 * S
     /\ (i = j => Pre(i, j)[2] = 0)

H(i, j) ==          \* Hermitian completion of the selected triangle of the input (integers)
  IF Sel(i, j) THEN <<Pre(i, j)[1] \div S, Pre(i, j)[2] \div S>>
               ELSE <<Pre(j, i)[1] \div S, -(Pre(j, i)[2] \div S)>>

(* Cholesky's algorithm in exact integer arithmetic: k = order of the largest positive definite
   leading block.  ok = FALSE when the data leave the exact class (pivot not the square of a power
   of two, inexact division) -- a defect of the test data, never of the library. *)
RECURSIVE CholFrom(_, _)
CholFrom(L, j) ==
  IF j > PN THEN [k |-> PN, ok |-> TRUE]
  ELSE LET piv == H(j, j)[1] - CSumN([m \in 1..(j - 1) |-> CMul(L[j][m], CConj(L[j][m]))], j - 1)[1]
       IN IF piv <= 0 THEN [k |-> j - 1, ok |-> TRUE]
          ELSE IF piv \notin {1, 4, 16, 64} THEN [k |-> -1, ok |-> FALSE]
          ELSE LET ljj    == CHOOSE r \in {1, 2, 4, 8} : r * r = piv
                   num(i) == CSub(H(i, j), CSumN([m \in 1..(j - 1) |-> CMul(L[i][m], CConj(L[j][m]))], j - 1))
               IN IF \E i \in (j + 1)..PN : num(i)[1] % ljj # 0 \/ num(i)[2] % ljj # 0
                  THEN [k |-> -1, ok |-> FALSE]
                  ELSE CholFrom([i \in 1..PN |-> [m \in 1..PN |->
                                   IF m # j THEN L[i][m]
                                   ELSE IF i < j THEN <<0, 0>>
                                   ELSE IF i = j THEN <<ljj, 0>>
                                   ELSE <<num(i)[1] \div ljj, num(i)[2] \div ljj>>]], j + 1)
Chol == CholFrom([i \in 1..PN |-> [m \in 1..PN |-> <<0, 0>>]], 1)

FacExact(k) ==      \* the returned factor consists of moderate (Gaussian) integers
  \A i, j \in 1..k : Sel(i, j) =>
     /\ Post(i, j)[1] % S = 0 /\ Post(i, j)[2] % S = 0
     /\ Abs(Post(i, j)[1]) <= 64 * S /\ Abs(Post(i, j)[2]) <= 64 * S
T(i, j) == IF Sel(i, j) THEN <<Post(i, j)[1] \div S, Post(i, j)[2] \div S>> ELSE <<0, 0>>
ProdOK(k) ==
  \A i, j \in 1..k :
     H(i, j) = IF E.uplo = "L" THEN CSumN([m \in 1..k |-> CMul(T(i, m), CConj(T(j, m)))], k)      \* T.T^H
                               ELSE CSumN([m \in 1..k |-> CMul(CConj(T(m, i)), T(m, j))], k)      \* T^H.T
RetOK(k) ==
  /\ E.ret.rows = k
  /\ k > 0 => /\ E.ret.cols \in {k, PN, PA.n}       \* leading k x k block, or the k leading rows
              /\ Len(E.ret.cells) = k
              /\ \A i \in 1..k : /\ Len(E.ret.cells[i]) = E.ret.cols
                                 /\ \A j \in 1..E.ret.cols : E.ret.cells[i][j] = Cell(PA, i, j)

PotrfVerdict ==
  IF ~(DescOK(PA) /\ PA.m <= PA.n /\ Len(E.A0) = BufLen(PA) /\ Len(E.A0i) = BufLen(PA)) THEN "desc"
  ELSE IF ~Observed(PA, E.cells) THEN "harness_layout"
  ELSE IF ~PotrfDataOK THEN "data"
  ELSE IF ~Chol.ok THEN "data"
  ELSE IF E.plant >= 0 /\ Chol.k # E.plant THEN "data"       \* the planted pivot is where the generator asked for it
  ELSE IF E.plant < 0 /\ Chol.k # PN THEN "data"
  ELSE IF E.st = "crash" THEN "crash"
  ELSE IF ~(Frame(E.A0, E.A1, SelCells) /\ Frame(E.A0i, E.A1i, SelCells)) THEN "frame"
  ELSE IF E.st # "ok" THEN "rejected"
  ELSE IF E.ret.rows # Chol.k THEN "order"
  ELSE IF ~RetOK(Chol.k) THEN "returned_view"
  ELSE IF ~FacExact(Chol.k) THEN "factor_inexact"
  ELSE IF ~ProdOK(Chol.k) THEN "product"
  ELSE "ok"

(* ------------------------------------------------------------------------------ geqrf *)
(* M0 (input), M1 (output): p x q matrices at scale S; tau: k values at scale S *)
QRRange(M1, tau, p, q) ==
  LET k == Min2(p, q) IN
  /\ \A i \in 1..p, j \in 1..q : IF i <= j THEN Abs(M1[i][j]) <= DataB ELSE Abs(M1[i][j]) <= UnitB
  /\ \A i \in 1..k : tau[i] >= 0 /\ tau[i] <= 2 * UnitB

Refl(M1, p, i) == [r \in 1..p |-> IF r < i THEN 0 ELSE IF r = i THEN S ELSE M1[r][i]]      \* v_i at scale S

QRHouseholder(M1, tau, p, q) ==      \* H_i = I - tau v v^T is orthogonal iff tau = 0 or tau * (v.v) = 2
  \A i \in 1..Min2(p, q) :
     LET v  == Refl(M1, p, i)
         vv == RDiv(SumN([r \in 1..p |-> v[r] * v[r]], p), S)
     IN tau[i] <= TolU \/ Abs(RDiv(tau[i] * vv, S) - 2 * S) <= 4 * TolU

QRApply(X, M1, tau, p, q, i) ==      \* H_i X, X at scale DS
  LET v  == Refl(M1, p, i)
      w  == [c \in 1..q |-> RDiv(SumN([r \in 1..p |-> v[r] * X[r][c]], p), S)]
      tv == [r \in 1..p |-> RDiv(tau[i] * v[r], S)]
  IN [r \in 1..p |-> [c \in 1..q |-> X[r][c] - RDiv(tv[r] * w[c], S)]]
RECURSIVE QRApplyDown(_, _, _, _, _, _)
QRApplyDown(X, M1, tau, p, q, i) == IF i = 0 THEN X ELSE QRApplyDown(QRApply(X, M1, tau, p, q, i), M1, tau, p, q, i - 1)

QRRecon(M0, M1, tau, p, q) ==        \* H_1 ... H_k R = M0
  LET Rm == [i \in 1..p |-> [j \in 1..q |-> IF i <= j THEN ToD(M1[i][j]) ELSE 0]]
      X  == QRApplyDown(Rm, M1, tau, p, q, Min2(p, q))
  IN \A i \in 1..p, j \in 1..q : Abs(X[i][j] - ToD(M0[i][j])) <= TolD

QROk(M0, M1, tau, p, q) ==
  QRRange(M1, tau, p, q) /\ QRHouseholder(M1, tau, p, q) /\ QRRecon(M0, M1, tau, p, q)

InputOK(M, p, q) == \A i \in 1..p, j \in 1..q : M[i][j] % S = 0 /\ Abs(M[i][j]) <= 8 * S    \* integers, |x| <= 8

QA == E.A
QK == Min2(QA.m, QA.n)
QTau == [i \in 1..QK |-> At(E.T1, E.TG + i - 1)]
GeqrfVerdict ==
  IF ~(DescOK(QA) /\ Len(E.A0) = BufLen(QA) /\ Len(E.T0) = 2 * E.TG + QK) THEN "desc"
  ELSE IF ~Observed(QA, E.cells) THEN "harness_layout"
  ELSE IF ~InputOK(Mat(QA, E.A0), QA.m, QA.n) THEN "data"
  ELSE IF E.st = "crash" THEN "crash"
  ELSE IF ~Frame(E.A0, E.A1, ViewCells(QA)) THEN "frame"
  ELSE IF ~Frame(E.T0, E.T1, VecCells(E.TG, QK)) THEN "frame_tau"
  ELSE IF E.st # "ok" THEN (IF QA.orient = "row" THEN "rejected" ELSE "ok")
  \* long/wide operands (LapackGen!GeqrfBig): accepted, frame intact; the fixed-point bounds below hold for sizes <= 6 only
  ELSE IF QA.m > MaxExact \/ QA.n > MaxExact THEN "ok"
  ELSE LET M0 == Mat(QA, E.A0)
           M1 == Mat(QA, E.A1)
       IN IF \/ QROk(Transp(M0, QA.m, QA.n), Transp(M1, QA.m, QA.n), QTau, QA.n, QA.m)     \* QR of the transpose (Fortran reading)
             \/ QROk(M0, M1, QTau, QA.m, QA.n)                                             \* QR of the view
          THEN "ok" ELSE "reconstruction"

(* ------------------------------------------------------------------------------ gesvd *)
SA == E.A
SU == E.U
SV == E.V
SK == Min2(SA.m, SA.n)
SvdRange(U, s, W) ==
  /\ \A i, j \in 1..SA.m : Abs(U[i][j]) <= UnitB
  /\ \A i, j \in 1..SA.n : Abs(W[i][j]) <= UnitB
  /\ \A i \in 1..SK : s[i] >= 0 /\ s[i] <= DataB
SvdOrder(s) == \A i \in 1..(SK - 1) : s[i] >= s[i + 1]
OrthCols(U, p) ==      \* U^T U = I
  \A i, j \in 1..p : Abs(RDiv(SumN([r \in 1..p |-> U[r][i] * U[r][j]], p), S) - (IF i = j THEN S ELSE 0)) <= TolU
OrthRows(W, p) == OrthCols(Transp(W, p, p), p)
SvdRecon(A0, U, s, W) ==
  LET Us == [i \in 1..SA.m |-> [c \in 1..SK |-> RDiv(U[i][c] * ToD(s[c]), S)]]       \* scale DS
      X  == [i \in 1..SA.m |-> [j \in 1..SA.n |-> RDiv(SumN([c \in 1..SK |-> Us[i][c] * W[c][j]], SK), S)]]
  IN \A i \in 1..SA.m, j \in 1..SA.n : Abs(X[i][j] - ToD(A0[i][j])) <= TolD

GesvdVerdict ==
  IF ~(/\ DescOK(SA) /\ DescOK(SU) /\ DescOK(SV)
       /\ SU.m = SA.m /\ SU.n = SA.m /\ SV.m = SA.n /\ SV.n = SA.n
       /\ Len(E.A0) = BufLen(SA) /\ Len(E.U0) = BufLen(SU) /\ Len(E.V0) = BufLen(SV) /\ Len(E.S0) = 2 * E.SG + SK) THEN "desc"
  ELSE IF ~Observed(SA, E.cells) THEN "harness_layout"
  ELSE IF ~InputOK(Mat(SA, E.A0), SA.m, SA.n) THEN "data"
  ELSE IF E.st = "crash" THEN "crash"
  ELSE IF ~Frame(E.A0, E.A1, IF E.form = "copy" THEN {} ELSE ViewCells(SA)) THEN "frame"
  ELSE IF ~Frame(E.U0, E.U1, ViewCells(SU)) THEN "frame_U"
  ELSE IF ~Frame(E.V0, E.V1, ViewCells(SV)) THEN "frame_VT"
  ELSE IF ~Frame(E.S0, E.S1, VecCells(E.SG, SK)) THEN "frame_s"
  ELSE IF E.st # "ok" THEN (IF SA.orient = "row" /\ SU.orient = "row" /\ SV.orient = "row" THEN "rejected" ELSE "ok")
  ELSE LET U == Mat(SU, E.U1)
           W == Mat(SV, E.V1)
           s == [i \in 1..SK |-> At(E.S1, E.SG + i - 1)]
       IN IF ~SvdRange(U, s, W) THEN "range"
          ELSE IF ~SvdOrder(s) THEN "order"
          ELSE IF ~OrthCols(U, SA.m) THEN "U_not_orthogonal"
          ELSE IF ~OrthRows(W, SA.n) THEN "VT_not_orthogonal"
          ELSE IF ~SvdRecon(Mat(SA, E.A0), U, s, W) THEN "reconstruction"
          ELSE "ok"

(* ---------------------------------------------------------------------------- monitor *)
Verdict ==
  CASE E.rt = "potrf" -> PotrfVerdict
    [] E.rt = "geqrf" -> GeqrfVerdict
    [] E.rt = "gesvd" -> GesvdVerdict
    [] OTHER -> "unknown_routine"

MInit == l = 1
MStep ==
  /\ l <= Len(Trace)
  /\ l' = l + 1
  /\ LET v == Verdict IN v = "ok" \/ PrintT(ToJson([id |-> E.id, rt |-> E.rt, bad |-> v]))
MSpec == MInit /\ [][MStep]_l
Consumed == TLCGet("stats").diameter - 1 = Len(Trace)
=============================================================================
