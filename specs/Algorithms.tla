----------------------------- MODULE Algorithms -----------------------------
(***************************************************************************)
(* Property C03: standard sequence algorithms applied to the begin()/end() *)
(* range of a view (items are proxy sub-views when D > 1) or to its        *)
(* elements() range act as on an equivalent sequence of independent        *)
(* values, and leave everything outside the view unchanged.                *)
(*                                                                         *)
(* Trace monitor (direction V): each line of the trace records one call -- *)
(* the item cells of the range (prescribed by ViewAlgebra/MultiSem for the *)
(* view program, not taken from the code), the store before and after,     *)
(* the auxiliary range before and after, the arguments and the returned    *)
(* position/value.  The monitor evaluates the algorithm's contract on the  *)
(* item VALUE sequences.  Algorithms whose result is determined are        *)
(* checked for equality; partly unspecified ones (partial_sort,            *)
(* nth_element, partition, unique, remove) for their postcondition.        *)
(***************************************************************************)
EXTENDS Integers, Sequences, FiniteSets, TLC, Json, IOUtils

Trace == ndJsonDeserialize(IOEnv.TRACE)

VARIABLE l
R == Trace[l]

(* item values: sequence (one per item) of the values at the item's cells *)
ItemsOf(cells, st) == [i \in 1..Len(cells) |-> [j \in 1..Len(cells[i]) |-> st[cells[i][j] + 1]]]

RECURSIVE LtSeq(_, _)
LtSeq(a, b) ==   \* lexicographic; items of one range have equal lengths
  IF a = <<>> THEN b # <<>>
  ELSE IF b = <<>> THEN FALSE
  ELSE IF Head(a) < Head(b) THEN TRUE
  ELSE IF Head(b) < Head(a) THEN FALSE
  ELSE LtSeq(Tail(a), Tail(b))

RECURSIVE LtItems(_, _)
LtItems(a, b) ==   \* lexicographic over sequences of items (std::lexicographical_compare of two ranges)
  IF a = <<>> THEN b # <<>>
  ELSE IF b = <<>> THEN FALSE
  ELSE IF LtSeq(Head(a), Head(b)) THEN TRUE
  ELSE IF LtSeq(Head(b), Head(a)) THEN FALSE
  ELSE LtItems(Tail(a), Tail(b))

SeqRange(s) == {s[i] : i \in 1..Len(s)}
Count(s, v) == Cardinality({i \in 1..Len(s) : s[i] = v})
IsPerm(s, t) == Len(s) = Len(t) /\ \A v \in SeqRange(s) \cup SeqRange(t) : Count(s, v) = Count(t, v)
IsSorted(s) == \A i \in 1..(Len(s) - 1) : ~LtSeq(s[i + 1], s[i])
IsSortedDesc(s) == \A i \in 1..(Len(s) - 1) : ~LtSeq(s[i], s[i + 1])     \* sorted by std::greater: no item smaller than its successor
Rev(s) == [i \in 1..Len(s) |-> s[Len(s) + 1 - i]]
Take(s, n) == SubSeq(s, 1, n)
Drop(s, n) == SubSeq(s, n + 1, Len(s))
RECURSIVE Filter(_, _)
Filter(s, v) == IF s = <<>> THEN <<>> ELSE IF Head(s) = v THEN Filter(Tail(s), v) ELSE <<Head(s)>> \o Filter(Tail(s), v)
RECURSIVE Uniq(_)
Uniq(s) == IF Len(s) <= 1 THEN s ELSE IF s[1] = s[2] THEN Uniq(Tail(s)) ELSE <<s[1]>> \o Uniq(Tail(s))
RECURSIVE SumSeq(_)
SumSeq(s) == IF s = <<>> THEN 0 ELSE Head(s)[1] + SumSeq(Tail(s))
FirstIdx(s, v) == IF \E i \in 1..Len(s) : s[i] = v THEN (CHOOSE i \in 1..Len(s) : s[i] = v /\ \A j \in 1..(i - 1) : s[j] # v) - 1 ELSE Len(s)

X  == ItemsOf(R.cells, R.pre)     \* the range before
Y  == ItemsOf(R.cells, R.post)    \* the range after
N  == Len(R.cells)
A0 == R.auxpre                    \* the auxiliary range (item value sequences) before / after
A1 == R.auxpost
Arg(k) == R.args[k]
Pivot == R.pivot                  \* an item value (sequence) used by find/remove/partition/fill

ViewCellSet == UNION {{R.cells[i][j] : j \in 1..Len(R.cells[i])} : i \in 1..Len(R.cells)}
Frame == \A c \in 1..Len(R.pre) : (c - 1) \notin ViewCellSet => R.post[c] = R.pre[c]
Unchanged == Y = X
AuxUnchanged == A1 = A0

(* the contract of each algorithm: <<ok, what>> *)
Post ==
  CASE R.alg \in {"sort", "stable_sort"} -> <<IsPerm(X, Y) /\ IsSorted(Y) /\ AuxUnchanged /\ R.ret = -1, "sorted permutation">>
    [] R.alg = "partial_sort" ->
         <<IsPerm(X, Y) /\ IsSorted(Take(Y, Arg(1))) /\ (\A i \in 1..Arg(1), j \in (Arg(1) + 1)..N : ~LtSeq(Y[j], Y[i])), "partial_sort">>
    [] R.alg = "nth_element" ->
         <<IsPerm(X, Y) /\ (Arg(1) < N => (\A i \in 1..Arg(1) : ~LtSeq(Y[Arg(1) + 1], Y[i])) /\ (\A j \in (Arg(1) + 2)..N : ~LtSeq(Y[j], Y[Arg(1) + 1]))), "nth_element">>
    [] R.alg = "rotate" -> <<Y = Drop(X, Arg(1)) \o Take(X, Arg(1)) /\ R.ret = N - Arg(1), "rotate">>
    [] R.alg = "reverse" -> <<Y = Rev(X) /\ R.ret = -1, "reverse">>
    [] R.alg = "partition" ->
         <<IsPerm(X, Y) /\ R.ret = Cardinality({i \in 1..N : LtSeq(X[i], Pivot)})
           /\ (\A i \in 1..R.ret : LtSeq(Y[i], Pivot)) /\ (\A i \in (R.ret + 1)..N : ~LtSeq(Y[i], Pivot)), "partition">>
    [] R.alg = "unique" -> <<R.ret = Len(Uniq(X)) /\ Take(Y, R.ret) = Uniq(X), "unique">>
    [] R.alg = "remove" -> <<R.ret = Len(Filter(X, Pivot)) /\ Take(Y, R.ret) = Filter(X, Pivot), "remove">>
    [] R.alg \in {"copy", "copy_backward", "move"} -> <<A1 = X /\ (R.alg = "move" \/ Unchanged) /\ R.ret = N, "copy into the auxiliary range">>
    [] R.alg = "copy_from" -> <<Y = A0 /\ AuxUnchanged /\ R.ret = N, "copy from the auxiliary range">>
    [] R.alg = "swap_ranges" -> <<Y = A0 /\ A1 = X /\ R.ret = N, "swap_ranges">>
    [] R.alg = "fill" -> <<Y = [i \in 1..N |-> Pivot] /\ R.ret = -1, "fill">>
    [] R.alg = "transform" -> <<A1 = [i \in 1..N |-> [j \in 1..Len(X[i]) |-> X[i][j] + 1]] /\ Unchanged /\ R.ret = N, "transform">>
    [] R.alg = "find" -> <<R.ret = FirstIdx(X, Pivot) /\ Unchanged, "find">>
    [] R.alg = "equal" -> <<R.ret = (IF X = A0 THEN 1 ELSE 0) /\ Unchanged /\ AuxUnchanged, "equal">>
    [] R.alg = "is_sorted" -> <<R.ret = (IF IsSorted(X) THEN 1 ELSE 0) /\ Unchanged, "is_sorted">>
    \* the same algorithms with std::greater<> (the items' own operator>)
    [] R.alg = "is_sorted_greater" -> <<R.ret = (IF IsSortedDesc(X) THEN 1 ELSE 0) /\ Unchanged, "is_sorted with greater">>
    [] R.alg = "sort_greater" -> <<IsPerm(X, Y) /\ IsSortedDesc(Y) /\ AuxUnchanged /\ R.ret = -1, "sorted permutation (greater)">>
    [] R.alg = "accumulate" -> <<R.ret = SumSeq(X) /\ Unchanged, "accumulate">>
    [] R.alg = "lexicographical_compare" ->
         <<R.ret = (IF LtItems(X, A0) THEN 1 ELSE 0) /\ Unchanged /\ AuxUnchanged, "lexicographical_compare">>
    [] OTHER -> <<FALSE, "unknown algorithm">>

GInit == l = 1
GStep ==
  /\ l <= Len(Trace)
  /\ l' = l + 1
  /\ LET p == Post IN
     \/ (p[1] /\ Frame)
     \/ PrintT(ToJson([bad |-> IF p[1] THEN "Frame" ELSE p[2], id |-> R.id, alg |-> R.alg, kind |-> R.kind]))
GSpec == GInit /\ [][GStep]_l
Consumed == TLCGet("stats").diameter - 1 = Len(Trace)
=============================================================================
