------------------------------ MODULE Contracts ------------------------------
(***************************************************************************)
(* Property C20 (R3): out-of-domain steps.  After a valid view program,    *)
(* one step OUTSIDE the documented precondition of an operation is taken:  *)
(* an index outside the extension (through brackets, through the last      *)
(* bracket of a chain, through call syntax), a slice reaching outside, or  *)
(* an assignment between views of different extents.  The requirement:     *)
(* in the assertion-enabled build the step is stopped by a library         *)
(* assertion (outcome Abort); TLC enumerates the steps, the replayer       *)
(* observes the outcome.                                                   *)
(* The in-domain part of C20 (R1, R2) re-uses ViewAlgebra/ArrayOps         *)
(* programs: they must run assertion-free and give identical observations *)
(* in the three build configurations.                                      *)
(***************************************************************************)
EXTENDS ViewAlgebra

CONSTANTS AssignKinds, SwappedKinds, BadKinds

VARIABLES bad
kvars == <<root, abs, impl, path, bad>>
NoBad == [kind |-> "none", args |-> <<>>]

Lo == abs.first[1]
Hi == abs.first[1] + abs.shape[1]         \* one past the last valid index

(* out-of-domain arguments: just outside, and two outside, on both sides *)
OutIdx == {Lo - 2, Lo - 1, Hi, Hi + 1}

BadSteps ==
  IF Dim(abs) = 0 \/ IsEmptyV(abs) THEN {}
  ELSE
       {[kind |-> "index", args |-> <<i>>] : i \in OutIdx}
  \* an index 2^32 above / below a VALID index i (TLC's integers are 32-bit: the replayer adds the 2^32): a range check done
  \* in 32-bit arithmetic would let it through
  \cup {[kind |-> k, args |-> <<i>>] : k \in {"index_far_up", "index_far_down"}, i \in Lo..(Hi - 1)}
  \cup (IF Dim(abs) >= 2
        THEN {[kind |-> "deep_index", args |-> <<j>>] : j \in {abs.first[Dim(abs)] - 1, abs.first[Dim(abs)] + abs.shape[Dim(abs)]}}
             \cup {[kind |-> "call_first", args |-> <<i>>] : i \in {Lo - 1, Hi}}
             \cup {[kind |-> "call_last", args |-> <<j>>] : j \in {abs.first[Dim(abs)] - 1, abs.first[Dim(abs)] + abs.shape[Dim(abs)]}}
        ELSE {})
  \cup {[kind |-> "sliced", args |-> <<a, b>>] : a \in {Lo - 1}, b \in {Lo + 1}}
  \cup {[kind |-> "sliced", args |-> <<a, b>>] : a \in {Lo}, b \in {Hi + 1}}
  \* assignment of a source whose extents differ: one row more / one row less (AssignKinds), or the same leading extent and
  \* number of elements with the two last extents exchanged (SwappedKinds: only a check of ALL extents can tell).  The kind's
  \* name also says how the source is held (array, named view, temporary view, temporary read-only view, view of another
  \* element type) and whether the destination view is named or temporary: each combination selects another operator=.
  \cup {[kind |-> k, args |-> <<>>] : k \in AssignKinds}
  \cup (IF Dim(abs) >= 3 /\ abs.shape[Dim(abs)] # abs.shape[Dim(abs) - 1]
        THEN {[kind |-> k, args |-> <<>>] : k \in SwappedKinds}
        ELSE {})

(* each bad step really is outside the documented domain *)
OutOfDomain(s) ==
  CASE s.kind \in {"index_far_up", "index_far_down"} -> InExt(abs, 1, s.args[1])     \* the offset is valid, the index is 2^32 away
    [] s.kind \in {"index", "call_first"} -> ~InExt(abs, 1, s.args[1])
    [] s.kind \in {"deep_index", "call_last"} -> ~InExt(abs, Dim(abs), s.args[1])
    [] s.kind = "sliced" -> ~SlicedPre(abs, s.args[1], s.args[2])
    [] OTHER -> TRUE

KInit == Init /\ bad = NoBad
KView == bad = NoBad /\ Len(path) < MaxDepth /\ (\E o \in Candidates(abs) : Step(o)) /\ UNCHANGED bad
KBad ==
  /\ bad = NoBad
  /\ \E s \in BadSteps : s.kind \in BadKinds /\ OutOfDomain(s) /\ bad' = s
  /\ UNCHANGED <<root, abs, impl, path>>
KNext == KView \/ KBad
KSpec == KInit /\ [][KNext]_kvars
KVW == <<root, abs, bad>>

(* the prescribed outcome of every bad step in the assertion-enabled configuration *)
Outcome == IF bad = NoBad THEN "Ok" ELSE "Abort"
KOutcomeOK == bad # NoBad => OutOfDomain(bad)

KExpect == [root |-> root, path |-> path, bad |-> bad, outcome |-> Outcome, shape |-> abs.shape, first |-> abs.first]
KEmitC == (~Emit) \/ bad = NoBad \/ PrintT(ToJson(KExpect))
=============================================================================
