------------------------------ MODULE MultiSem ------------------------------
(***************************************************************************)
(* Requirement-level semantics of boost-multi views.                       *)
(*                                                                         *)
(* A view is a record [shape, first, cell]:                                *)
(*   shape : sequence of sizes, one per dimension                          *)
(*   first : sequence of first valid indices (the index base), per dim     *)
(*   cell  : function from zero-based POSITION tuples (Tuples(shape)) to   *)
(*           the cell number of the root storage that position designates  *)
(* Every view-forming operation of the library is given here by its        *)
(* documented index mapping (README "Indexing", "Slices and strides",      *)
(* reference tables), independently of the (stride, offset, nelems)        *)
(* arithmetic the code uses -- that arithmetic is MultiLayout.tla.         *)
(***************************************************************************)
EXTENDS Integers, Sequences, FiniteSets

RECURSIVE Prod(_), Tuples(_), ToLinear(_, _), FromLinear(_, _)

Prod(s) == IF s = <<>> THEN 1 ELSE Head(s) * Prod(Tail(s))

Min2(a, b) == IF a <= b THEN a ELSE b
Max2(a, b) == IF a >= b THEN a ELSE b

(* all zero-based position tuples of a shape, canonical order = lexicographic *)
Tuples(sh) ==
  IF sh = <<>> THEN {<<>>}
  ELSE {<<i>> \o t : i \in 0..(Head(sh) - 1), t \in Tuples(Tail(sh))}

ToLinear(t, sh) ==
  IF t = <<>> THEN 0
  ELSE Head(t) * Prod(Tail(sh)) + ToLinear(Tail(t), Tail(sh))

FromLinear(n, sh) ==
  IF sh = <<>> THEN <<>>
  ELSE LET sub == Prod(Tail(sh)) IN <<n \div sub>> \o FromLinear(n % sub, Tail(sh))

Zeros(n) == [k \in 1..n |-> 0]

Rot(s)    == IF Len(s) <= 1 THEN s ELSE Tail(s) \o <<Head(s)>>
Unrot(s)  == IF Len(s) <= 1 THEN s ELSE <<s[Len(s)]>> \o SubSeq(s, 1, Len(s) - 1)
Rev(s)    == [k \in 1..Len(s) |-> s[Len(s) + 1 - k]]
Swap12(s) == IF Len(s) <= 1 THEN s ELSE <<s[2], s[1]>> \o SubSeq(s, 3, Len(s))
Rest(s, k) == SubSeq(s, k, Len(s))          \* s[k..]

-----------------------------------------------------------------------------
(* Views *)

Mk(sh, fi, f(_)) == [shape |-> sh, first |-> fi, cell |-> [t \in Tuples(sh) |-> f(t)]]

Dim(v)         == Len(v.shape)
NumElements(v) == Prod(v.shape)
IsEmptyV(v)    == NumElements(v) = 0

(* a fresh array with the given sizes and index bases, row-major *)
RootView(sh, fi) == Mk(sh, fi, LAMBDA t : ToLinear(t, sh))

(* elements() : the flat sequence in canonical order (last index fastest) *)
ElementsOf(v) == [k \in 1..NumElements(v) |-> v.cell[FromLinear(k - 1, v.shape)]]

(* extension of dimension d as the pair <<first, last>> *)
ExtensionOf(v, d) == <<v.first[d], v.first[d] + v.shape[d]>>
InExt(v, d, i)    == v.first[d] <= i /\ i < v.first[d] + v.shape[d]

-----------------------------------------------------------------------------
(* View-forming operations: XxxPre = documented precondition, XxxF = result *)

IndexPre(v, i) == Dim(v) >= 1 /\ InExt(v, 1, i)
IndexF(v, i)   == LET p == i - v.first[1] IN
                  Mk(Tail(v.shape), Tail(v.first), LAMBDA t : v.cell[<<p>> \o t])

SlicedPre(v, a, b) == Dim(v) >= 1 /\ v.first[1] <= a /\ a <= b /\ b <= v.first[1] + v.shape[1]
SlicedF(v, a, b)   == LET p == a - v.first[1] IN
                      Mk([v.shape EXCEPT ![1] = b - a], v.first,
                         LAMBDA t : v.cell[<<t[1] + p>> \o Tail(t)])

StridedPre(v, s) == Dim(v) >= 1 /\ s >= 1 /\ v.shape[1] % s = 0
StridedF(v, s)   == Mk([v.shape EXCEPT ![1] = v.shape[1] \div s],
                       [v.first EXCEPT ![1] = v.first[1] \div s],
                       LAMBDA t : v.cell[<<t[1] * s>> \o Tail(t)])

DroppedPre(v, n) == Dim(v) >= 1 /\ 0 <= n /\ n <= v.shape[1]
DroppedF(v, n)   == Mk([v.shape EXCEPT ![1] = v.shape[1] - n], v.first,
                       LAMBDA t : v.cell[<<t[1] + n>> \o Tail(t)])

TakedPre(v, n) == Dim(v) >= 1 /\ 0 <= n /\ n <= v.shape[1]
TakedF(v, n)   == Mk([v.shape EXCEPT ![1] = n], v.first, LAMBDA t : v.cell[t])

RotatedPre(v)   == Dim(v) >= 1
RotatedF(v)     == Mk(Rot(v.shape), Rot(v.first), LAMBDA t : v.cell[Unrot(t)])
UnrotatedPre(v) == Dim(v) >= 1
UnrotatedF(v)   == Mk(Unrot(v.shape), Unrot(v.first), LAMBDA t : v.cell[Rot(t)])

TransposedPre(v) == Dim(v) >= 2
TransposedF(v)   == Mk(Swap12(v.shape), Swap12(v.first), LAMBDA t : v.cell[Swap12(t)])

ReversedPre(v) == Dim(v) >= 1
ReversedF(v)   == Mk(Rev(v.shape), Rev(v.first), LAMBDA t : v.cell[Rev(t)])

DiagonalPre(v) == Dim(v) >= 2
DiagonalF(v)   == Mk(<<Min2(v.shape[1], v.shape[2])>> \o Rest(v.shape, 3),
                     <<0>> \o Rest(v.first, 3),
                     LAMBDA t : v.cell[<<t[1], t[1]>> \o Tail(t)])

PartitionedPre(v, p) == Dim(v) >= 1 /\ p >= 1 /\ v.shape[1] % p = 0
PartitionedF(v, p)   == LET q == v.shape[1] \div p IN
                        Mk(<<p, q>> \o Tail(v.shape), <<0>> \o v.first,
                           LAMBDA t : v.cell[<<t[1] * q + t[2]>> \o Rest(t, 3)])

ChunkedPre(v, c) == Dim(v) >= 1 /\ c >= 1 /\ v.shape[1] >= 1 /\ v.shape[1] % c = 0
ChunkedF(v, c)   == PartitionedF(v, v.shape[1] \div c)

(* halved() = partitioned(2); sliced(a, b, s) = sliced(a, b).strided(s); operator~ = transposed() *)
HalvedPre(v) == Dim(v) >= 1 /\ v.shape[1] % 2 = 0
HalvedF(v)   == PartitionedF(v, 2)
Sliced3Pre(v, a, b, s) == SlicedPre(v, a, b) /\ s >= 1 /\ (b - a) % s = 0 /\ v.first[1] % s = 0
Sliced3F(v, a, b, s)   == StridedF(SlicedF(v, a, b), s)

(* flatted additionally needs a layout-level precondition (is_flattable()),   *)
(* which the state machines conjoin; abstractly it is the row-major merge   *)
(* of the two leading dimensions                                            *)
FlattedPre(v) == Dim(v) >= 2
FlattedF(v)   == LET m == v.shape[2] IN
                 Mk(<<v.shape[1] * m>> \o Rest(v.shape, 3), Tail(v.first),
                    LAMBDA t : v.cell[<<t[1] \div m, t[1] % m>> \o Tail(t)])

(* broadcasted()[k] : the source view itself, for every k *)
BroadcastAtPre(v, k) == TRUE
BroadcastAtF(v, k)   == v

(* reindexed(g1..gk): same cells, the first k index bases replaced *)
ReindexedPre(v, g) == Len(g) >= 1 /\ Len(g) <= Dim(v)
ReindexedF(v, g)   == [v EXCEPT !.first = [d \in 1..Dim(v) |-> IF d <= Len(g) THEN g[d] ELSE v.first[d]]]

BlockedPre(v, a, b) == SlicedPre(v, a, b)
BlockedF(v, a, b)   == LET s == SlicedF(v, a, b) IN [s EXCEPT !.first[1] = a]

(* stenciled({a1,b1},...,{aK,bK}): the block [a1,b1) x ... x [aK,bK) of the first K dimensions, which  *)
(* KEEPS the parent's indices (the element at index tuple t of the result is the element at t of v)    *)
StenK(g) == Len(g) \div 2
StenciledPre(v, g) ==
  /\ Len(g) \in {2, 4, 6} /\ StenK(g) <= Dim(v)
  /\ \A d \in 1..StenK(g) : v.first[d] <= g[2*d - 1] /\ g[2*d - 1] <= g[2*d] /\ g[2*d] <= v.first[d] + v.shape[d]
StenciledF(v, g) ==
  LET K == StenK(g) IN
  Mk([d \in 1..Dim(v) |-> IF d <= K THEN g[2*d] - g[2*d - 1] ELSE v.shape[d]],
     [d \in 1..Dim(v) |-> IF d <= K THEN g[2*d - 1] ELSE v.first[d]],
     LAMBDA t : v.cell[[d \in 1..Dim(v) |-> IF d <= K THEN t[d] + (g[2*d - 1] - v.first[d]) ELSE t[d]]])

(* tiled(c): the pair (quotient, remainder) = (taked(w).chunked(c), dropped(w)) with w the largest multiple of c <= size *)
TiledWhole(v, c) == v.shape[1] - (v.shape[1] % c)
TiledPre(v, c)   == Dim(v) >= 1 /\ c >= 1 /\ v.shape[1] >= c
TiledQF(v, c)    == ChunkedF(TakedF(v, TiledWhole(v, c)), c)
TiledRF(v, c)    == DroppedF(v, TiledWhole(v, c))

(* front() / back(): the first / last item; &v then *p: the same view *)
FrontPre(v) == Dim(v) >= 1 /\ v.shape[1] >= 1
FrontF(v)   == IndexF(v, v.first[1])
BackF(v)    == IndexF(v, v.first[1] + v.shape[1] - 1)

(* Call syntax V(a1,...,ak): args is a sequence of triples <<kind, x, y>>;    *)
(*   kind 0: index x       -> the dimension disappears                       *)
(*   kind 1: range [x, y)  -> the dimension is kept with size y - x          *)
(*   kind 2: all (multi::_)-> the dimension is kept                          *)
(* missing trailing arguments mean "all".  Positional semantics.            *)
ArgKind(args, d) == IF d <= Len(args) THEN args[d][1] ELSE 2
ParenPre(v, args) ==
  /\ Len(args) <= Dim(v)
  /\ \A d \in 1..Len(args) :
       \/ args[d][1] = 0 /\ InExt(v, d, args[d][2])
       \/ args[d][1] = 1 /\ v.first[d] <= args[d][2] /\ args[d][2] <= args[d][3]
                         /\ args[d][3] <= v.first[d] + v.shape[d]
       \/ args[d][1] = 2
ParenF(v, args) ==
  LET D    == Dim(v)
      Kept == {d \in 1..D : ArgKind(args, d) # 0}
      \* rank of kept dimension d among the kept ones
      Rank(d) == Cardinality({e \in Kept : e <= d})
      \* the kept dimension with rank r
      DimOf(r) == CHOOSE d \in Kept : Rank(d) = r
      nk   == Cardinality(Kept)
      sh   == [r \in 1..nk |-> LET d == DimOf(r) IN
                 IF ArgKind(args, d) = 1 THEN args[d][3] - args[d][2] ELSE v.shape[d]]
      fi   == [r \in 1..nk |-> v.first[DimOf(r)]]
      Src(t) == [d \in 1..D |->
                   IF ArgKind(args, d) = 0 THEN args[d][2] - v.first[d]
                   ELSE IF ArgKind(args, d) = 1 THEN t[Rank(d)] + (args[d][2] - v.first[d])
                   ELSE t[Rank(d)]]
  IN Mk(sh, fi, LAMBDA t : v.cell[Src(t)])

-----------------------------------------------------------------------------
(* Uniform dispatch: an operation is a record [op |-> name, args |-> Seq(Int)] *)
(* (for "paren" the args are the flattened triples).                          *)

Triples(a) == [k \in 1..(Len(a) \div 3) |-> <<a[3*k - 2], a[3*k - 1], a[3*k]>>]

ApplyPre(v, o) ==
  CASE o.op = "index"       -> IndexPre(v, o.args[1])
    [] o.op = "sliced"      -> SlicedPre(v, o.args[1], o.args[2])
    [] o.op = "strided"     -> StridedPre(v, o.args[1])
    [] o.op = "dropped"     -> DroppedPre(v, o.args[1])
    [] o.op = "taked"       -> TakedPre(v, o.args[1])
    [] o.op = "rotated"     -> RotatedPre(v)
    [] o.op = "unrotated"   -> UnrotatedPre(v)
    [] o.op = "transposed"  -> TransposedPre(v)
    [] o.op = "reversed"    -> ReversedPre(v)
    [] o.op = "diagonal"    -> DiagonalPre(v)
    [] o.op = "partitioned" -> PartitionedPre(v, o.args[1])
    [] o.op = "chunked"     -> ChunkedPre(v, o.args[1])
    [] o.op = "flatted"     -> FlattedPre(v)
    [] o.op = "halved"      -> HalvedPre(v)
    [] o.op = "sliced3"     -> Sliced3Pre(v, o.args[1], o.args[2], o.args[3])
    [] o.op = "tilde"       -> TransposedPre(v)
    [] o.op = "broadcast"   -> BroadcastAtPre(v, o.args[1])
    [] o.op = "reindexed"   -> ReindexedPre(v, o.args)
    [] o.op = "blocked"     -> BlockedPre(v, o.args[1], o.args[2])
    [] o.op = "stenciled"   -> StenciledPre(v, o.args)
    [] o.op \in {"tiled_q", "tiled_r"} -> TiledPre(v, o.args[1])
    [] o.op = "range"       -> SlicedPre(v, o.args[1], o.args[2])
    [] o.op \in {"front", "back"} -> FrontPre(v)
    [] o.op = "addr"        -> Dim(v) >= 1
    [] o.op = "paren"       -> ParenPre(v, Triples(o.args))
    [] OTHER                -> FALSE

ApplyF(v, o) ==
  CASE o.op = "index"       -> IndexF(v, o.args[1])
    [] o.op = "sliced"      -> SlicedF(v, o.args[1], o.args[2])
    [] o.op = "strided"     -> StridedF(v, o.args[1])
    [] o.op = "dropped"     -> DroppedF(v, o.args[1])
    [] o.op = "taked"       -> TakedF(v, o.args[1])
    [] o.op = "rotated"     -> RotatedF(v)
    [] o.op = "unrotated"   -> UnrotatedF(v)
    [] o.op = "transposed"  -> TransposedF(v)
    [] o.op = "reversed"    -> ReversedF(v)
    [] o.op = "diagonal"    -> DiagonalF(v)
    [] o.op = "partitioned" -> PartitionedF(v, o.args[1])
    [] o.op = "chunked"     -> ChunkedF(v, o.args[1])
    [] o.op = "flatted"     -> FlattedF(v)
    [] o.op = "halved"      -> HalvedF(v)
    [] o.op = "sliced3"     -> Sliced3F(v, o.args[1], o.args[2], o.args[3])
    [] o.op = "tilde"       -> TransposedF(v)
    [] o.op = "broadcast"   -> BroadcastAtF(v, o.args[1])
    [] o.op = "reindexed"   -> ReindexedF(v, o.args)
    [] o.op = "blocked"     -> BlockedF(v, o.args[1], o.args[2])
    [] o.op = "stenciled"   -> StenciledF(v, o.args)
    [] o.op = "tiled_q"     -> TiledQF(v, o.args[1])
    [] o.op = "tiled_r"     -> TiledRF(v, o.args[1])
    [] o.op = "range"       -> SlicedF(v, o.args[1], o.args[2])
    [] o.op = "front"       -> FrontF(v)
    [] o.op = "back"        -> BackF(v)
    [] o.op = "addr"        -> v
    [] o.op = "paren"       -> ParenF(v, Triples(o.args))

(* semantic strides: for a dimension of size >= 2 of a non-empty view, the    *)
(* cell distance between neighbouring positions; 0 marks "unobservable"      *)
UnitT(D, d) == [k \in 1..D |-> IF k = d THEN 1 ELSE 0]
SemStride(v, d) ==
  IF IsEmptyV(v) \/ v.shape[d] < 2 THEN 0
  ELSE v.cell[UnitT(Dim(v), d)] - v.cell[Zeros(Dim(v))]

(* is the cell function affine in the positions?  (always true for views    *)
(* reachable by the operations above; TLC checks it)                        *)
IsAffine(v) ==
  IsEmptyV(v) \/
  \A t \in Tuples(v.shape) :
     v.cell[t] = v.cell[Zeros(Dim(v))]
                 + LET RECURSIVE S(_)
                       S(d) == IF d = 0 THEN 0 ELSE t[d] * SemStride(v, d) + S(d - 1)
                   IN S(Dim(v))
=============================================================================
