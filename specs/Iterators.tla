------------------------------ MODULE Iterators ------------------------------
(***************************************************************************)
(* Property C02: begin()/end() iterators of a view, and the flat           *)
(* elements() iterators, obey the random-access laws and designate the     *)
(* prescribed items.                                                       *)
(*                                                                         *)
(* The view is built first by a ViewAlgebra program (variables root, abs,  *)
(* impl, path); then an iterator program runs over two registers.          *)
(* Requirement level: an iterator IS its position p in 0..N (N = size()    *)
(* for begin()/end(), N = num_elements() for elements()); the item at p    *)
(* is the p-th sub-view (or element) / the element at the p-th index       *)
(* tuple in canonical order.  All laws of the property are consequences    *)
(* of this reading; the conformance replay checks that the real iterators  *)
(* realise it after every program.                                         *)
(***************************************************************************)
EXTENDS ViewAlgebra

CONSTANTS
  Kinds,      \* subset of {"outer", "elems"}
  Offsets,    \* set of non-zero integers used by += -= + -
  MaxProg,    \* length of iterator programs
  MaxN,       \* iterator programs only on views with N <= MaxN
  Merge       \* TRUE: programs reaching the same positions are merged (edge coverage);
              \* FALSE: every program is kept (path coverage)

OffsetsSmall == {-2, -1, 1, 2}
OffsetsWide == {-3, -2, -1, 1, 2, 3}

VARIABLES kind, pos, prog
ivars == <<root, abs, impl, path, kind, pos, prog>>

N == IF Dim(abs) = 0 THEN 0 ELSE IF kind = "outer" THEN abs.shape[1] ELSE NumElements(abs)

IOp(name, r, s, n) == [op |-> name, r |-> r, s |-> s, n |-> n]

IterOps ==
       {IOp(nm, r, 0, 0) : nm \in {"begin", "end", "inc", "dec", "postinc", "postdec"}, r \in 1..2}
  \cup {IOp(nm, r, 0, n) : nm \in {"addeq", "subeq"}, r \in 1..2, n \in Offsets}
  \cup {IOp(nm, r, s, n) : nm \in {"plus", "minus"}, r \in 1..2, s \in 1..2, n \in Offsets}
  \cup {IOp(nm, r, s, 0) : nm \in {"assign", "copy"}, r \in 1..2, s \in {1, 2} }

(* position of register o.r after the operation *)
NewPos(o) ==
  CASE o.op = "begin"   -> 0
    [] o.op = "end"     -> N
    [] o.op \in {"inc", "postinc"} -> pos[o.r] + 1
    [] o.op \in {"dec", "postdec"} -> pos[o.r] - 1
    [] o.op = "addeq"   -> pos[o.r] + o.n
    [] o.op = "subeq"   -> pos[o.r] - o.n
    [] o.op = "plus"    -> pos[o.s] + o.n
    [] o.op = "minus"   -> pos[o.s] - o.n
    [] o.op \in {"assign", "copy"} -> pos[o.s]

IterPre(o) == NewPos(o) >= 0 /\ NewPos(o) <= N /\ (o.op \in {"assign", "copy"} => o.r # o.s)

IInit == Init /\ kind \in Kinds /\ pos = <<0, 0>> /\ prog = <<>>

ViewStep ==
  /\ prog = <<>>
  /\ Len(path) < MaxDepth
  /\ \E o \in Candidates(abs) : Step(o)
  /\ UNCHANGED <<kind, pos, prog>>

IterStep ==
  /\ Dim(abs) >= 1
  /\ N <= MaxN
  /\ Len(prog) < MaxProg
  /\ \E o \in IterOps :
       /\ IterPre(o)
       /\ pos' = [pos EXCEPT ![o.r] = NewPos(o)]
       /\ prog' = Append(prog, o)
  /\ UNCHANGED <<root, abs, impl, path, kind>>

INext == ViewStep \/ IterStep
ISpec == IInit /\ [][INext]_ivars

IVW  == IF Merge THEN <<root, abs, kind, pos, IF prog = <<>> THEN 0 ELSE 1>> ELSE <<root, abs, kind, pos, prog>>

-----------------------------------------------------------------------------
(* the item designated by position p: the cells of the sub-view / the element *)
Item(p) ==
  IF kind = "outer"
  THEN IF Dim(abs) = 1 THEN <<abs.cell[<<p>>]>>
       ELSE ElementsOf(IndexF(abs, abs.first[1] + p))
  ELSE <<abs.cell[FromLinear(p, abs.shape)]>>

ItemAt(p) == IF p < N THEN Item(p) ELSE <<>>

PosOK == \A r \in 1..2 : pos[r] \in 0..N

IExpect ==
  [ root |-> root, path |-> path, kind |-> kind, prog |-> prog, pos |-> pos, n |-> N,
    item |-> <<ItemAt(pos[1]), ItemAt(pos[2])>>,
    firsts |-> [q \in 1..N |-> IF Item(q - 1) = <<>> THEN -1 ELSE Item(q - 1)[1]] ]

IEmitC == (~Emit) \/ Dim(abs) = 0 \/ N > MaxN \/ PrintT(ToJson(IExpect))
=============================================================================
