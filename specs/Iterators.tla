------------------------------ MODULE Iterators ------------------------------
(***************************************************************************)
(* Property C02: begin()/end() iterators of a view, and the flat           *)
(* elements() iterators, obey the random-access laws and designate the     *)
(* prescribed items.                                                       *)
(*                                                                         *)
(* The view is built first by a ViewAlgebra program (variables root, abs,  *)
(* impl, path); then an iterator program runs over two registers.          *)
(* Requirement level: an iterator IS its position p in 0..N (N = size()    *)
(* for begin()/end(), N = num_elements() for elements()); the item at p    *)
(* is the p-th sub-view (or element) / the element at the p-th index       *)
(* tuple in canonical order.  All laws of the property are consequences    *)
(* of this reading; the conformance replay checks that the real iterators  *)
(* realise it after every program.                                         *)
(***************************************************************************)
EXTENDS ViewAlgebra

CONSTANTS
  Kinds,      \* subset of {"outer", "elems"}
  Offsets,    \* set of non-zero integers used by += -= + -
  MaxProg,    \* length of iterator programs
  MaxN,       \* iterator programs only on views with N <= MaxN
  Merge,      \* TRUE: programs reaching the same positions are merged (edge coverage);
              \* FALSE: every program is kept (path coverage)
  TwinOps     \* names of the view operations that may derive a TWIN view of the same dimensionality
              \* from the view ({} = no twin).  Iterators of the view and of its twin have one C++ type,
              \* so a register can be re-seated from one range into the other by assignment

OffsetsOne == {-1, 1}
OffsetsSmall == {-2, -1, 1, 2}
OffsetsWide == {-3, -2, -1, 1, 2, 3}

VARIABLES kind, pos, prog,
          twin,   \* the operation deriving the twin view from abs, or NoTwin
          rng     \* for each register the range it points into: 0 = the view, 1 = its twin
ivars == <<root, abs, impl, path, kind, pos, prog, twin, rng>>

NoTwin == [op |-> "none", args |-> <<>>]
TwinView == IF twin.op = "none" THEN abs ELSE ApplyF(abs, twin)
ViewOf(g) == IF g = 0 THEN abs ELSE TwinView
NOf(v) == IF Dim(v) = 0 THEN 0 ELSE IF kind = "outer" THEN v.shape[1] ELSE NumElements(v)
N == NOf(abs)
NR(r) == NOf(ViewOf(rng[r]))

IOp(name, r, s, n) == [op |-> name, r |-> r, s |-> s, n |-> n]

IterOps ==
       {IOp(nm, r, 0, 0) : nm \in {"begin", "end", "inc", "dec", "postinc", "postdec"}, r \in 1..2}
  \cup {IOp(nm, r, 0, n) : nm \in {"addeq", "subeq"}, r \in 1..2, n \in Offsets}
  \cup {IOp(nm, r, s, n) : nm \in {"plus", "minus"}, r \in 1..2, s \in 1..2, n \in Offsets}
  \cup {IOp(nm, r, s, 0) : nm \in {"assign", "copy"}, r \in 1..2, s \in {1, 2} }
  \cup {IOp(nm, r, 0, 0) : nm \in {"tbegin", "tend"}, r \in 1..2}     \* x = twin.begin() / x = twin.end()

(* the range register o.r points into after the operation *)
NewRng(o) ==
  CASE o.op \in {"begin", "end"}   -> 0
    [] o.op \in {"tbegin", "tend"} -> 1
    [] o.op \in {"plus", "minus", "assign", "copy"} -> rng[o.s]
    [] OTHER -> rng[o.r]

(* position of register o.r after the operation *)
NewPos(o) ==
  CASE o.op \in {"begin", "tbegin"} -> 0
    [] o.op = "end"     -> N
    [] o.op = "tend"    -> NOf(TwinView)
    [] o.op \in {"inc", "postinc"} -> pos[o.r] + 1
    [] o.op \in {"dec", "postdec"} -> pos[o.r] - 1
    [] o.op = "addeq"   -> pos[o.r] + o.n
    [] o.op = "subeq"   -> pos[o.r] - o.n
    [] o.op = "plus"    -> pos[o.s] + o.n
    [] o.op = "minus"   -> pos[o.s] - o.n
    [] o.op \in {"assign", "copy"} -> pos[o.s]

IterPre(o) ==
  /\ NewPos(o) >= 0 /\ NewPos(o) <= NOf(ViewOf(NewRng(o)))
  /\ (o.op \in {"assign", "copy"} => o.r # o.s)
  /\ (o.op \in {"tbegin", "tend"} => twin.op # "none")

IInit == Init /\ kind \in Kinds /\ pos = <<0, 0>> /\ prog = <<>> /\ twin = NoTwin /\ rng = <<0, 0>>

ViewStep ==
  /\ prog = <<>> /\ twin = NoTwin
  /\ Len(path) < MaxDepth
  /\ \E o \in Candidates(abs) : Step(o)
  /\ UNCHANGED <<kind, pos, prog, twin, rng>>

(* the view is complete: pick a twin of the same dimensionality (another view of the same root) *)
TwinStep ==
  /\ prog = <<>> /\ twin = NoTwin
  /\ Dim(abs) >= 1 /\ N <= MaxN
  /\ \E o \in Candidates(abs) :
       /\ o.op \in TwinOps
       /\ ApplyPre(abs, o)
       /\ Dim(ApplyF(abs, o)) = Dim(abs)
       /\ NOf(ApplyF(abs, o)) <= MaxN
       /\ twin' = o
  /\ UNCHANGED <<root, abs, impl, path, kind, pos, prog, rng>>

IterStep ==
  /\ Dim(abs) >= 1
  /\ N <= MaxN
  /\ Len(prog) < MaxProg
  /\ \E o \in IterOps :
       /\ IterPre(o)
       /\ pos' = [pos EXCEPT ![o.r] = NewPos(o)]
       /\ rng' = [rng EXCEPT ![o.r] = NewRng(o)]
       /\ prog' = Append(prog, o)
  /\ UNCHANGED <<root, abs, impl, path, kind, twin>>

INext == ViewStep \/ TwinStep \/ IterStep
ISpec == IInit /\ [][INext]_ivars

IVW  == IF Merge THEN <<root, abs, kind, pos, twin, rng, IF prog = <<>> THEN 0 ELSE 1>> ELSE <<root, abs, kind, pos, twin, prog>>

-----------------------------------------------------------------------------
(* the item designated by position p: the cells of the sub-view / the element *)
ItemOf(v, p) ==
  IF kind = "outer"
  THEN IF Dim(v) = 1 THEN <<v.cell[<<p>>]>>
       ELSE ElementsOf(IndexF(v, v.first[1] + p))
  ELSE <<v.cell[FromLinear(p, v.shape)]>>
Item(p) == ItemOf(abs, p)

ItemAtOf(v, p) == IF p < NOf(v) THEN ItemOf(v, p) ELSE <<>>
FirstsOf(v) == [q \in 1..NOf(v) |-> IF ItemOf(v, q - 1) = <<>> THEN -1 ELSE ItemOf(v, q - 1)[1]]

PosOK == \A r \in 1..2 : pos[r] \in 0..NR(r)

IExpect ==
  [ root |-> root, path |-> path, kind |-> kind, prog |-> prog, pos |-> pos, n |-> N,
    twin |-> twin, rng |-> rng, ns |-> <<NR(1), NR(2)>>,
    item |-> <<ItemAtOf(ViewOf(rng[1]), pos[1]), ItemAtOf(ViewOf(rng[2]), pos[2])>>,
    firsts |-> FirstsOf(abs),
    firsts_r |-> <<FirstsOf(ViewOf(rng[1])), FirstsOf(ViewOf(rng[2]))>> ]

IEmitC == (~Emit) \/ Dim(abs) = 0 \/ N > MaxN \/ PrintT(ToJson(IExpect))
=============================================================================
