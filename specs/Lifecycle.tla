------------------------------ MODULE Lifecycle ------------------------------
(***************************************************************************)
(* Properties C08, C09, C10: resource life cycle of owning arrays.         *)
(*                                                                         *)
(* This is a trace monitor (direction V): it consumes the event log        *)
(* recorded from the real library -- every allocate / deallocate seen by   *)
(* the observing allocator and every construction / assignment /           *)
(* destruction seen by the tracked element type -- and steps the           *)
(* resource state                                                          *)
(*     B : block id  -> [al, cls, n, cells (raw/alive), freed]             *)
(*     S : set of live tracked objects outside any block                   *)
(* through it, evaluating at EVERY event the rule that event must obey.    *)
(* The monitor is total: a failed rule is recorded (printed) and the       *)
(* state is resynchronised at the next Reset, so one violation never       *)
(* hides the rest of the trace.                                            *)
(*                                                                         *)
(* Rules (the statements of the properties):                               *)
(*   ConstructOnRaw   an element is constructed only on raw storage of a   *)
(*                    live block (never over a live object)                *)
(*   UseOnAlive       copy/move sources and assignment targets are alive   *)
(*   DestroyOnAlive   only live objects are destroyed (exactly once)       *)
(*   DeallocExact     a block is returned once, with the size it was       *)
(*                    requested with, with no live element left in it,     *)
(*                    through an allocator equal to the one that made it   *)
(*   HandleConsistent at the end of every operation (also a failed one)    *)
(*                    each array owns a live block of exactly              *)
(*                    num_elements() cells, all alive, made by an          *)
(*                    allocator equal to its get_allocator()               *)
(*   NoLeak           at the end of every operation every live block is    *)
(*                    owned by exactly one array; at the end of a history  *)
(*                    nothing is outstanding                               *)
(*   NoAllocWhenNotNeeded  same-extent assignment, assignment through      *)
(*                    views, swap, move, clear ... do not allocate          *)
(*   ReachesCaller    an injected fault leaves the operation as an         *)
(*                    exception (not std::terminate)                       *)
(***************************************************************************)
EXTENDS Integers, Sequences, FiniteSets, TLC, Json, IOUtils

Trace == ndJsonDeserialize(IOEnv.TRACE)

VARIABLES l,      \* next line to consume
          B, S,   \* resource state
          seg,    \* <<history id, fault point, 1 if the elements are silent>> of the current segment
          cur,    \* name of the operation in progress (from OpBegin)
          nalloc, \* allocations since OpBegin
          skip    \* TRUE after a violation / terminate: ignore events until the next Reset

mvars == <<l, B, S, seg, cur, nalloc, skip>>

Raw == 0
Alive == 1

NoBlocks == [x \in {} |-> 0]

Ev == Trace[l]

Complain(rule) ==
  PrintT(ToJson([bad |-> rule, line |-> l, seg |-> seg, op |-> cur, exc |-> IF Ev.e = "OpEnd" THEN Ev.how ELSE "-", h |-> IF "h" \in DOMAIN Ev THEN Ev.h ELSE <<>>, ev |-> [e |-> Ev.e, how |-> Ev.how, blk |-> Ev.blk, i |-> Ev.i, sblk |-> Ev.sblk, si |-> Ev.si]]))

LiveBlk(b) == b \in DOMAIN B /\ ~B[b].freed
CellIs(b, i, st) == LiveBlk(b) /\ i >= 0 /\ i < B[b].n /\ B[b].cells[i + 1] = st

(* is the object (blk, i) a live object?  blk = -1: outside any block *)
ObjAlive(b, i) == IF b = -1 THEN i \in S ELSE CellIs(b, i, Alive)

(* rule of each event: <<ok, rule name>> *)
Rule ==
  CASE Ev.e = "Alloc"   -> <<Ev.blk \notin DOMAIN B, "AllocFreshBlock">>
    [] Ev.e = "Dealloc" -> IF ~LiveBlk(Ev.blk) THEN <<FALSE, "DeallocExact:unknown_or_freed_block">>
                           ELSE IF B[Ev.blk].n # Ev.i THEN <<FALSE, "DeallocExact:size">>
                           ELSE IF B[Ev.blk].cls # Ev.si THEN <<FALSE, "DeallocExact:allocator">>
                           ELSE IF \E k \in 1..B[Ev.blk].n : B[Ev.blk].cells[k] = Alive THEN <<FALSE, "DeallocExact:live_elements">>
                           ELSE <<TRUE, "">>
    [] Ev.e = "Ctor"    -> IF Ev.blk = -1 THEN <<Ev.i \notin S, "ConstructOnRaw:stack">>
                           ELSE IF ~CellIs(Ev.blk, Ev.i, Raw) THEN <<FALSE, "ConstructOnRaw">>
                           ELSE IF Ev.how \in {"copy", "move"} /\ ~ObjAlive(Ev.sblk, Ev.si) THEN <<FALSE, "UseOnAlive:source">>
                           ELSE <<TRUE, "">>
    [] Ev.e = "Assign"  -> IF ~ObjAlive(Ev.blk, Ev.i) THEN <<FALSE, "UseOnAlive:target">>
                           ELSE IF ~ObjAlive(Ev.sblk, Ev.si) THEN <<FALSE, "UseOnAlive:source">>
                           ELSE <<TRUE, "">>
    [] Ev.e = "Dtor"    -> <<ObjAlive(Ev.blk, Ev.i), "DestroyOnAlive">>
    [] OTHER            -> <<TRUE, "">>

(* effect of an event that obeyed its rule *)
NewB ==
  CASE Ev.e = "Alloc"   -> [x \in DOMAIN B \cup {Ev.blk} |->
                              IF x = Ev.blk THEN [al |-> Ev.sblk, cls |-> Ev.si, n |-> Ev.i, cells |-> [k \in 1..Ev.i |-> Raw], freed |-> FALSE]
                              ELSE B[x]]
    [] Ev.e = "Dealloc" -> [B EXCEPT ![Ev.blk].freed = TRUE]
    [] Ev.e = "Ctor" /\ Ev.blk # -1 -> [B EXCEPT ![Ev.blk].cells[Ev.i + 1] = Alive]
    [] Ev.e = "Dtor" /\ Ev.blk # -1 -> [B EXCEPT ![Ev.blk].cells[Ev.i + 1] = Raw]
    [] OTHER -> B
NewS ==
  CASE Ev.e = "Ctor" /\ Ev.blk = -1 -> S \cup {Ev.i}
    [] Ev.e = "Dtor" /\ Ev.blk = -1 -> S \ {Ev.i}
    [] OTHER -> S

(* end of an operation: handles are tuples <<slot, blk, ne, alloc id, alloc class>> *)
Handles == Ev.h
HandleOK(h) ==
  IF h[3] = 0 THEN TRUE     \* an array without elements owns nothing (its data pointer is not observable behaviour)
  ELSE /\ LiveBlk(h[2])
       /\ B[h[2]].n = h[3]
       \* (seg[3] = 1: the element type is trivially copyable and destructible and emits no events of its own; only the
       \*  blocks are followed)
       /\ (seg[3] = 1 \/ \A k \in 1..h[3] : B[h[2]].cells[k] = Alive)
       /\ B[h[2]].cls = h[5]
Owned == {Handles[k][2] : k \in {j \in 1..Len(Handles) : Handles[j][3] > 0}}
Outstanding == {b \in DOMAIN B : ~B[b].freed /\ B[b].n > 0}
(* operations that need no new storage must not allocate (C09) *)
NoAllocOps == {"assign_copy_same", "assign_view_same", "assign_other_same", "assign_range_same", "swap", "assign_move", "ctor_move",
               "self_assign", "write", "write_last", "reshape", "clear", "assign_empty", "destroy", "reextent_same", "reextent_fill_same", "reextent_move_same"}
OpEndRule ==
  IF Ev.how \in {"unsupported"} THEN <<TRUE, "">>
  ELSE IF cur \in NoAllocOps /\ nalloc > 0 THEN <<FALSE, "NoAllocWhenNotNeeded">>
  ELSE IF \E k \in 1..Len(Handles) : ~HandleOK(Handles[k]) THEN <<FALSE, "HandleConsistent">>
  ELSE IF \E j, k \in 1..Len(Handles) : j # k /\ Handles[j][3] > 0 /\ Handles[k][3] > 0 /\ Handles[j][2] = Handles[k][2] THEN <<FALSE, "HandleConsistent:shared_block">>
  ELSE IF ~(Outstanding \subseteq Owned) THEN <<FALSE, "NoLeak">>
  ELSE IF \E b \in DOMAIN B : LiveBlk(b) /\ b \notin Owned /\ \E k \in 1..B[b].n : B[b].cells[k] = Alive THEN <<FALSE, "NoLeak:elements">>
  ELSE <<TRUE, "">>

Terminated == Ev.e = "OpEnd" /\ Ev.how = "terminated"

MInit == l = 1 /\ B = NoBlocks /\ S = {} /\ seg = <<-1, -1, 0>> /\ cur = "none" /\ nalloc = 0 /\ skip = FALSE

MStep ==
  /\ l <= Len(Trace)
  /\ l' = l + 1
  /\ cur' = IF Ev.e = "OpBegin" THEN Ev.how ELSE IF Ev.e = "Reset" THEN "none" ELSE cur
  /\ nalloc' = IF Ev.e \in {"OpBegin", "Reset"} THEN 0 ELSE IF Ev.e = "Alloc" /\ ~skip THEN nalloc + 1 ELSE nalloc
  /\ IF Ev.e = "Reset"
     THEN B' = NoBlocks /\ S' = {} /\ seg' = <<Ev.blk, Ev.i, Ev.sblk>> /\ skip' = FALSE
     ELSE IF skip THEN UNCHANGED <<B, S, seg, skip>>
     ELSE IF Terminated
          THEN /\ Complain(IF seg[2] >= 0 THEN "ReachesCaller" ELSE "Aborted")
               /\ skip' = TRUE /\ UNCHANGED <<B, S, seg>>
     ELSE IF Ev.e = "OpEnd"
          THEN LET r == OpEndRule IN
               IF r[1] THEN UNCHANGED <<B, S, seg, skip>>
               ELSE Complain(r[2]) /\ skip' = TRUE /\ UNCHANGED <<B, S, seg>>
     ELSE IF Ev.e = "End"
          \* at the end of a history every block the allocator handed out has been given back -- also a block of zero elements
          \* (an allocator may return a real block for n = 0, and std::allocator's does)
          THEN IF Ev.how = "checked" /\ ({b \in DOMAIN B : ~B[b].freed} # {} \/ S # {})
               THEN Complain("NoLeakAtEnd") /\ UNCHANGED <<B, S, seg, skip>>
               ELSE UNCHANGED <<B, S, seg, skip>>
     ELSE LET r == Rule IN
          IF r[1] THEN B' = NewB /\ S' = NewS /\ UNCHANGED <<seg, skip>>
          ELSE Complain(r[2]) /\ skip' = TRUE /\ UNCHANGED <<B, S, seg>>

MSpec == MInit /\ [][MStep]_mvars

(* everything was consumed: checked as a POSTCONDITION *)
Consumed == TLCGet("stats").diameter - 1 = Len(Trace)
=============================================================================
