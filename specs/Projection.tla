----------------------------- MODULE Projection -----------------------------
(***************************************************************************)
(* Property C12: projection views (member_cast, reinterpret_array_cast,    *)
(* static/const casts, as_const, element_transformed) transform, cast or   *)
(* reinterpret exactly element by element and compose with the view        *)
(* algebra; arrays built from them preserve extents and convert element    *)
(* by element.                                                             *)
(*                                                                         *)
(* The root holds records S = {short a; short b;}.  Storage is addressed   *)
(* in units of one short: record cell c occupies units 2c (a) and 2c+1     *)
(* (b).  Initially a = 100 + c and b = 200 + c.  A program is              *)
(*   P1 (view operations on the record array) ; one cast ; P2 (view        *)
(*   operations on the projected view)                                     *)
(* and the requirement prescribes the resulting shape, for every index     *)
(* tuple the unit it designates, and the value read there.                 *)
(***************************************************************************)
EXTENDS ViewAlgebra

CONSTANTS Casts, PostOps, MaxPost

(* units (shorts) per record: 2 for S = {short a; short b;}; the run with three-short records (RecUnits3 substituted in the cfg)    *)
(* reinterprets them as pairs of shorts -- element sizes 6 and 4 bytes, neither a multiple of the other                          *)
RecUnits  == 2
RecUnits3 == 3
PairCasts == {"reint_pair", "reint_pair_const", "reint_pair_rv"}

VARIABLES cast,    \* "none" until the cast is applied
          post     \* operations applied after the cast
pvars == <<root, abs, impl, path, cast, post>>

UnitA(c) == RecUnits * c
UnitB(c) == RecUnits * c + 1
ValAt(u) == 100 * ((u % RecUnits) + 1) + (u \div RecUnits)      \* member a = 100 + cell, b = 200 + cell, (c = 300 + cell)

Front(t) == SubSeq(t, 1, Len(t) - 1)

(* the projected view: cells are now units of short.  The suffixes name the value category through which   *)
(* the cast is reached in the code (_const: a const view; _rv: a temporary view) -- the library has a       *)
(* separate overload for each, and the requirement is the same for all of them.                             *)
CastF(v, c) ==
  CASE c \in {"member_a", "member_a_const", "member_a_rv"} -> Mk(v.shape, v.first, LAMBDA t : UnitA(v.cell[t]))
    [] c \in {"member_b", "member_b_const", "member_b_rv"} -> Mk(v.shape, v.first, LAMBDA t : UnitB(v.cell[t]))
    \* reinterpret_array_cast<int>(): the whole record as one 32-bit element, in place
    [] c \in {"reint_int", "reint_int_const", "reint_int_rv"} \cup PairCasts -> Mk(v.shape, v.first, LAMBDA t : UnitA(v.cell[t]))
    \* reinterpret_array_cast<short>(2): a trailing dimension of size 2 over each record's units
    [] c \in {"reint_short2", "reint_short2_const", "reint_short2_rv"} -> Mk(v.shape \o <<2>>, v.first \o <<0>>, LAMBDA t : 2 * v.cell[Front(t)] + t[Len(t)])
    \* identity on element identity
    \* element_transformed with a function returning a reference to member b: designates that member
    [] c = "transformed_refb" -> Mk(v.shape, v.first, LAMBDA t : UnitB(v.cell[t]))
    [] c \in {"static_const", "const_cast", "as_const", "transformed_a1", "convert_array"}
                        -> Mk(v.shape, v.first, LAMBDA t : UnitA(v.cell[t]))

(* kind of value read through the projected view *)
ValKind(c) ==
  CASE c \in {"member_a", "member_a_const", "member_a_rv", "member_b", "member_b_const", "member_b_rv",
                 "reint_short2", "reint_short2_const", "reint_short2_rv", "transformed_refb"} -> "short"
    [] c \in {"reint_int", "reint_int_const", "reint_int_rv"} \cup PairCasts -> "int"
    [] c \in {"static_const", "const_cast", "as_const", "convert_array"} -> "record_a"   \* observed through its member a
    [] c = "transformed_a1" -> "lazy_a_plus_1"

(* the root is mutated AFTER the lazy view is formed: every a becomes a + 1000 *)
Mutation == 1000
ValueOf(c, u) ==
  CASE ValKind(c) = "short" -> ValAt(u)
    [] ValKind(c) = "int" -> ValAt(u) + 65536 * ValAt(u + 1)
    [] ValKind(c) = "record_a" -> ValAt(u)
    [] ValKind(c) = "lazy_a_plus_1" -> ValAt(u) + Mutation + 1

PInit == Init /\ cast = "none" /\ post = <<>>
PView == cast = "none" /\ Len(path) < MaxDepth /\ (\E o \in Candidates(abs) : Step(o)) /\ UNCHANGED <<cast, post>>
PCast ==
  /\ cast = "none"
  /\ Dim(abs) >= 1 /\ Dim(abs) <= 3
  /\ ~IsEmptyV(abs)
  /\ \E c \in Casts :
       \* a cast between element sizes 6 and 4 is admissible when every stride (in records) is even: stride * 6 is a multiple of 4
       /\ (c \in PairCasts => RecUnits = 3 /\ \A d \in 1..Dim(abs) : impl.lay[d].s % 2 = 0 /\ impl.lay[d].o % 2 = 0)
       /\ cast' = c /\ abs' = CastF(abs, c)
  /\ UNCHANGED <<root, impl, path, post>>
PPost ==
  /\ cast # "none"
  /\ Len(post) < MaxPost
  /\ \E o \in Candidates(abs) :
       /\ o.op \in PostOps
       /\ ApplyPre(abs, o)
       /\ (o.op = "strided" => o.args[1] = 2 /\ abs.first[1] % 2 = 0)     \* strided on a re-based view: the index base must be a multiple of the stride (as in ViewAlgebra!Enabled)
       /\ (o.op = "dropped" => o.args[1] = 1)
       /\ (o.op = "index" => o.args[1] = abs.first[1])
       /\ abs' = ApplyF(abs, o)
       /\ post' = Append(post, o)
  /\ UNCHANGED <<root, impl, path, cast>>
PNext == PView \/ PCast \/ PPost
PSpec == PInit /\ [][PNext]_pvars
PVW == <<root, abs, cast, post>>

(* every designated unit lies inside the root's storage *)
PInBounds == cast = "none" \/ \A t \in DOMAIN abs.cell : abs.cell[t] >= 0 /\ abs.cell[t] < RecUnits * Prod(root.shape)

PExpect == [root |-> root, path |-> path, cast |-> cast, post |-> post, shape |-> abs.shape,
            units |-> ElementsOf(abs),
            vals |-> [k \in 1..NumElements(abs) |-> ValueOf(cast, ElementsOf(abs)[k])]]
PEmitC == (~Emit) \/ cast = "none" \/ PrintT(ToJson(PExpect))
=============================================================================
