----------------------------- MODULE ViewAssign -----------------------------
(***************************************************************************)
(* Property C05: assignment through views is deep and writes exactly the   *)
(* viewed elements.                                                        *)
(*                                                                         *)
(* The destination view is built by a ViewAlgebra program over a root      *)
(* whose storage initially holds value c in cell c.  One assignment-like   *)
(* operation follows.  The source always has the extents of the            *)
(* destination view; its element at canonical position k (1-based) has     *)
(* the value SrcBase + k.  The requirement is the store afterwards:        *)
(*   Exact : the cell designated by position k holds the source value k    *)
(*   Frame : every other cell of the root is unchanged                     *)
(* (for swap, the source afterwards holds the old destination values; for  *)
(* a move FROM the view, exactly the viewed cells are moved-from).         *)
(***************************************************************************)
EXTENDS ViewAlgebra

CONSTANTS AKinds     \* assignment kinds enabled

VARIABLES kind       \* "none" while the view is being built, then the operation performed
wvars == <<root, abs, impl, path, kind>>

SrcBase == 1000
FillBase == 2000
MovedFrom == -2

RootN == Prod(root.shape)
ViewCells == {abs.cell[t] : t \in DOMAIN abs.cell}
(* canonical position (1-based) of a cell in the view; views here are injective *)
PosOf(c) == CHOOSE k \in 1..NumElements(abs) : ElementsOf(abs)[k] = c

Injective == \A t1, t2 \in DOMAIN abs.cell : t1 # t2 => abs.cell[t1] # abs.cell[t2]

InnerN == IF Dim(abs) = 0 THEN 1 ELSE Prod(Tail(abs.shape))

(* the store (flat over the root's cells, 0-based cell c at index c+1) after the operation *)
StoreAfter(k) ==
  [c1 \in 1..RootN |->
     LET c == c1 - 1 IN
     IF c \notin ViewCells THEN c
     ELSE CASE k \in {"assign_array", "assign_rotview", "assign_padview", "assign_constview", "assign_other",
                      "assign_range", "assign_il", "elements_assign", "swap", "assign_moved_view",
                      "assign_rvalue_rotview", "assign_innerT", "assign_rvalue_innerT", "swap_same_layout",
                      \* source and destination: views of one allocation with interleaved addresses and disjoint elements
                      "assign_interleaved",
                      \* the destination view itself is a temporary
                      "assign_rdest_array", "assign_rdest_rotview", "assign_rdest_rvalue_rotview"} -> SrcBase + PosOf(c)
            \* fill takes the view's value_type: an element (D = 1) or a (D-1)-dimensional array
            [] k = "fill" -> FillBase + ((PosOf(c) - 1) % InnerN) + 1
            [] k = "std_fill_elements" -> FillBase
            [] k = "move_from" -> MovedFrom
            [] OTHER -> c]

(* what the source holds afterwards, in canonical order (only constrained for swap) *)
SrcAfter(k) ==
  IF k \in {"swap", "swap_same_layout"} THEN [j \in 1..NumElements(abs) |-> ElementsOf(abs)[j]]
  ELSE [j \in 1..NumElements(abs) |-> SrcBase + j]

WInit == Init /\ kind = "none"
WView == kind = "none" /\ Len(path) < MaxDepth /\ (\E o \in Candidates(abs) : Step(o)) /\ UNCHANGED kind
WAssign ==
  /\ kind = "none"
  /\ Dim(abs) >= 1
  /\ NumElements(abs) >= 1
  /\ \E k \in AKinds : kind' = k
  /\ UNCHANGED <<root, abs, impl, path>>
WNext == WView \/ WAssign
WSpec == WInit /\ [][WNext]_wvars

WVW == <<root, abs, kind>>

(* the views reachable here never alias one cell twice (no broadcast), so Exact and Frame are well defined *)
WInjective == Injective

WExpect == [root |-> root, path |-> path, kind |-> kind, shape |-> abs.shape,
            store |-> StoreAfter(kind), src |-> SrcAfter(kind), cells |-> ElementsOf(abs)]
WEmitC == (~Emit) \/ kind = "none" \/ PrintT(ToJson(WExpect))
=============================================================================
