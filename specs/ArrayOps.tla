------------------------------ MODULE ArrayOps ------------------------------
(***************************************************************************)
(* Value semantics of owning arrays (properties C04, C06, and the          *)
(* histories used by C08, C09, C10, C17, C19).                             *)
(*                                                                         *)
(* A pool of array variables ("slots").  Each slot is dead or holds a      *)
(* value [shape, first, val]: sizes, index bases and the flat element      *)
(* sequence in canonical order.  Every public operation of multi::array    *)
(* is one action whose effect on the VALUES is what the documentation      *)
(* promises; nothing here talks about storage.  TLC enumerates histories   *)
(* and emits (history, prescribed values); the replayer runs the history   *)
(* on real arrays and the values must agree.                               *)
(*                                                                         *)
(* Unspecified element values (elements of trivially default-              *)
(* constructible types created without a value) are the constant U and     *)
(* are not compared.                                                       *)
(***************************************************************************)
EXTENDS Integers, Sequences, FiniteSets, TLC, Json, MultiSem

CONSTANTS
  DimD,        \* dimensionality of every array in this run (0..4)
  Slots,       \* e.g. {1, 2}
  MaxExt,      \* extents 0..MaxExt
  ABases,      \* index bases
  MaxDepth,    \* history length
  OpSet,       \* enabled operation names
  TrivialT,    \* TRUE: element type is trivially default constructible (unspecified new elements)
  AllocIds,    \* allocator instances that operations may name ({} outside C10)
  POCCA, POCMA, POCS, AlwaysEq,   \* allocator traits of this configuration (C10)
  AEmit

U == -1    \* unspecified value

ABasesZero  == {0}
ABasesMixed == {-1, 0, 2}
ABasesTwo   == {0, 2}

VARIABLES arr,    \* values
          alloc,  \* allocator instance of each live array (C10); 0 = default-constructed allocator
          hist
avars == <<arr, alloc, hist>>

(* allocator instances: 1 and 2 are equal (class 1), 3 is unequal to them (class 2), 0 is the default one *)
(* (class 0); select_on_container_copy_construction of instance a is the instance a + 100 of the same class *)
ClsOf(a) == LET b == a % 100 IN IF b = 0 THEN 0 ELSE IF b \in {1, 2} THEN 1 ELSE 2
EqualAl(a, b) == AlwaysEq \/ ClsOf(a) = ClsOf(b)
Select(a) == (a % 100) + 100

(* an array left in a valid but unspecified state (source of an element-wise move) *)
Unspec == [live |-> TRUE, shape |-> <<-1>>, first |-> <<0>>, val |-> <<>>]
IsSpec(a) == a.live /\ a.shape # <<-1>>

RECURSIVE SeqsOf(_, _)
SeqsOf(S, n) == IF n = 0 THEN {<<>>} ELSE {<<x>> \o s : x \in S, s \in SeqsOf(S, n - 1)}

Dead == [live |-> FALSE, shape |-> <<>>, first |-> <<>>, val |-> <<>>]
Arr(sh, fi, va) == [live |-> TRUE, shape |-> sh, first |-> fi, val |-> va]
(* the value of a default-constructed / cleared / moved-from array: no elements; a zero-dimensional array always *)
(* holds exactly one element, whose value is then unspecified                                                 *)
EmptyArr == IF DimD = 0 THEN Arr(<<>>, <<>>, <<U>>) ELSE Arr(Zeros(DimD), Zeros(DimD), <<>>)

(* an extents argument: bases are only meaningful for non-empty shapes *)
Exts == {[shape |-> sh, first |-> fi] : sh \in SeqsOf(0..MaxExt, DimD), fi \in SeqsOf(ABases, DimD)}

NE(a) == Prod(a.shape)
DefaultV == IF TrivialT THEN U ELSE 0         \* value-initialised element (0 / empty string -> 0)

(* value of the element with INDEX tuple idx (not position) or "absent" *)
HasIndex(a, idx) == \A d \in 1..DimD : a.first[d] <= idx[d] /\ idx[d] < a.first[d] + a.shape[d]
AtIndex(a, idx)  == a.val[ToLinear([d \in 1..DimD |-> idx[d] - a.first[d]], a.shape) + 1]

(* the array seen as a view over its own flat storage, and a view of it as a value *)
AsView(a) == RootView(a.shape, a.first)
OfView(a, w) == Arr(w.shape, w.first, [k \in 1..Prod(w.shape) |-> a.val[ElementsOf(w)[k] + 1]])

(* source wrappers: the source array t seen through a short view program (zero, one or, *)
(* for D >= 3, two operations the second of which permutes dimensions)                  *)
NoW == <<>>
VO(nm, ar) == [op |-> nm, args |-> ar]
PermOps == {VO("rotated", <<>>), VO("unrotated", <<>>), VO("transposed", <<>>), VO("reversed", <<>>)}
FirstOps(a) ==
  PermOps \cup
  {VO("strided", <<2>>), VO("dropped", <<1>>),
   VO("sliced", <<a.first[1], a.first[1] + a.shape[1] - 1>>),
   VO("paren", IF DimD >= 2 THEN <<2, 0, 0, 1, a.first[2] + 1, a.first[2] + a.shape[2]>> ELSE <<2, 0, 0>>)}
ViewOf(a, ws) == IF ws = <<>> THEN AsView(a)
                 ELSE IF Len(ws) = 1 THEN ApplyF(AsView(a), ws[1])
                 ELSE ApplyF(ApplyF(AsView(a), ws[1]), ws[2])
Wrappers(a) ==
  {NoW} \cup
  (IF DimD = 0 \/ NE(a) = 0 THEN {} ELSE
   LET ones == {o \in FirstOps(a) : ApplyPre(AsView(a), o) /\ (o.op = "strided" => a.first[1] % 2 = 0)}
       twos == IF DimD < 3 THEN {}
               ELSE {<<o1, o2>> : o1 \in ones \cap PermOps, o2 \in PermOps}
   IN {<<o>> : o \in ones} \cup twos)
Wrapped(a, ws) == IF ws = <<>> THEN a ELSE OfView(a, ViewOf(a, ws))

-----------------------------------------------------------------------------
(* value-level effect of each operation *)

ZeroLead(a)       == IF DimD = 0 THEN a ELSE [a EXCEPT !.first[1] = 0]
FillArr(x, v)     == Arr(x.shape, x.first, [k \in 1..Prod(x.shape) |-> v])
IotaArr(x, b)     == Arr(x.shape, x.first, [k \in 1..Prod(x.shape) |-> b + k - 1])

ReextentF(a, x, fill) ==
  IF x.shape = a.shape /\ x.first = a.first THEN a
  ELSE Arr(x.shape, x.first,
           [k \in 1..Prod(x.shape) |->
              LET pos == FromLinear(k - 1, x.shape)
                  idx == [d \in 1..DimD |-> x.first[d] + pos[d]]
              IN IF NE(a) > 0 /\ HasIndex(a, idx) THEN AtIndex(a, idx) ELSE fill])

WriteF(a, k, v) == [a EXCEPT !.val[k] = v]

Op(name, s, t, x, v, w) == [op |-> name, s |-> s, t |-> t, x |-> x, v |-> v, w |-> w]
NoX == [shape |-> <<>>, first |-> <<>>]

LiveS == {s \in Slots : IsSpec(arr[s])}
UnspecS == {s \in Slots : arr[s].live /\ ~IsSpec(arr[s])}
DeadS == {s \in Slots : ~arr[s].live}

(* all candidate operations of a state *)
Cands ==
  \* constructors into a dead slot
     {Op("ctor_default", s, 0, NoX, 0, NoW) : s \in DeadS}
  \cup {Op("ctor_ext", s, 0, x, 0, NoW) : s \in DeadS, x \in Exts}
  \cup {Op("ctor_fill", s, 0, x, v, NoW) : s \in DeadS, x \in Exts, v \in {7}}
  \cup {Op("ctor_iota", s, 0, x, b, NoW) : s \in DeadS, x \in Exts, b \in {10, 50}}
  \cup UNION {{Op(nm, s, t, NoX, 0, w) : nm \in {"ctor_view", "decay", "ctor_range"}, s \in DeadS, w \in Wrappers(arr[t])} : t \in LiveS}
  \cup {Op(nm, s, t, NoX, 0, NoW) : nm \in {"ctor_copy", "ctor_move", "ctor_ref", "ctor_rref", "ctor_other", "ctor_other_x", "ctor_il"}, s \in DeadS, t \in LiveS}
  \* assignments to a live slot
  \cup UNION {{Op(nm, s, t, NoX, 0, NoW) : nm \in {"assign_copy", "assign_move", "assign_other", "assign_il", "swap", "assign_range", "assign_range_ptr"}, t \in LiveS \ {s}} : s \in LiveS}
  \cup UNION {UNION {{Op(nm, s, t, NoX, 0, w) : nm \in {"assign_view", "assign_rview"}, w \in Wrappers(arr[t])} : t \in LiveS \ {s}} : s \in LiveS}
  \* assignment between array_ref's over the storage of two arrays of equal extents: deep, no allocation, storage kept
  \cup UNION {{Op(nm, s, t, NoX, 0, NoW) : nm \in {"ref_assign", "ref_assign_move"},
                 t \in {q \in LiveS \ {s} : arr[q].shape = arr[s].shape /\ arr[q].first = arr[s].first /\ NE(arr[q]) > 0}} : s \in LiveS}
  \* swap of the whole-array VIEWS of two arrays of equal extensions: the elements are exchanged, storage and allocators stay
  \cup UNION {{Op("swap_views", s, t, NoX, 0, NoW) :
                 t \in {q \in LiveS \ {s} : arr[q].shape = arr[s].shape /\ arr[q].first = arr[s].first /\ NE(arr[q]) > 0}} : s \in LiveS}
  \cup {Op("self_assign", s, s, NoX, 0, NoW) : s \in LiveS}
  \cup {Op("write", s, 0, NoX, 99, NoW) : s \in {q \in LiveS : NE(arr[q]) > 0}}
  \cup {Op("write_last", s, 0, NoX, 98, NoW) : s \in {q \in LiveS : NE(arr[q]) > 1}}
  \cup {Op("destroy", s, 0, NoX, 0, NoW) : s \in LiveS \cup UnspecS}
  \* C10: operations that name an allocator instance (carried in v)
  \cup {Op("ctor_iota_al", s, 0, x, a, NoW) : s \in DeadS, x \in Exts, a \in AllocIds}
  \cup {Op(nm, s, t, NoX, a, NoW) : nm \in {"ctor_copy_al", "ctor_move_al"}, s \in DeadS, t \in LiveS, a \in AllocIds}
  \cup UNION {{Op("assign_copy", s, t, NoX, 0, NoW) : t \in LiveS} : s \in UnspecS}
  \* C06
  \cup {Op("reextent", s, 0, x, 0, NoW) : s \in LiveS, x \in Exts}
  \cup {Op("reextent_fill", s, 0, x, v, NoW) : s \in LiveS, x \in Exts, v \in {8}}
  \cup {Op("reextent_move", s, 0, x, 0, NoW) : s \in LiveS, x \in Exts}
  \cup {Op("clear", s, 0, NoX, 0, NoW) : s \in LiveS}
  \cup {Op("assign_empty", s, 0, NoX, 0, NoW) : s \in LiveS}
  \cup UNION {{Op("reshape", s, 0, x, 0, NoW) : x \in {y \in Exts : Prod(y.shape) = NE(arr[s]) /\ NE(arr[s]) > 0}} : s \in LiveS}
  \cup {Op("assign_fill", s, 0, x, v, NoW) : s \in LiveS, x \in Exts, v \in {6}}

(* extents argument normalisation: an extents argument with a zero size denotes an empty array *)
Src(o) == Wrapped(arr[o.t], o.w)

Result(o) ==   \* new value of slot o.s
  CASE o.op = "ctor_default"  -> EmptyArr
    [] o.op = "ctor_ext"      -> FillArr(o.x, DefaultV)
    [] o.op = "ctor_fill"     -> FillArr(o.x, o.v)
    [] o.op = "ctor_iota"     -> IotaArr(o.x, o.v)
    [] o.op = "ctor_iota_al"  -> IotaArr(o.x, 10)
    [] o.op \in {"ctor_copy_al", "ctor_move_al"} -> arr[o.t]
    \* (assign_rview: the source view is a TEMPORARY; a view is a reference-like handle, so the source array keeps its elements)
    [] o.op \in {"ctor_view", "decay", "assign_view", "assign_rview"} -> Src(o)
    \* a pair of iterators carries no index base for the leading dimension
    [] o.op = "ctor_range" -> ZeroLead(Src(o))
    \* (assign_range_ptr: the range is a pair of raw POINTERS into a buffer of ANOTHER arithmetic type holding the same values:
    \*  the elements are CONVERTED, whatever the width of the source type)
    [] o.op \in {"assign_range", "assign_range_ptr"} -> IF arr[o.t].shape = arr[o.s].shape
                                THEN Arr(arr[o.s].shape, arr[o.s].first, arr[o.t].val)   \* element-wise, keeps its extents
                                ELSE ZeroLead(arr[o.t])
    \* nested initializer lists are zero-based
    [] o.op \in {"ctor_il", "assign_il"} -> Arr(arr[o.t].shape, Zeros(DimD), arr[o.t].val)
    \* (ctor_rref: from a TEMPORARY array_ref over the source's storage: a reference, so the source keeps its elements)
    [] o.op \in {"ctor_copy", "ctor_move", "ctor_ref", "ctor_rref", "ctor_other", "ctor_other_x",
                 "assign_copy", "assign_move", "assign_other", "ref_assign", "ref_assign_move"} -> arr[o.t]
    [] o.op \in {"swap", "swap_views"} -> arr[o.t]
    [] o.op = "self_assign"   -> arr[o.s]
    [] o.op = "write"         -> WriteF(arr[o.s], 1, o.v)
    [] o.op = "write_last"    -> WriteF(arr[o.s], NE(arr[o.s]), o.v)
    [] o.op = "destroy"       -> Dead
    [] o.op = "reextent"      -> ReextentF(arr[o.s], o.x, DefaultV)
    [] o.op = "reextent_fill" -> ReextentF(arr[o.s], o.x, o.v)
    \* std::move(a).reextent(x): the rvalue overload promises the new extents only; element values are unspecified
    [] o.op = "reextent_move" -> IF o.x.shape = arr[o.s].shape /\ o.x.first = arr[o.s].first THEN arr[o.s] ELSE FillArr(o.x, U)
    [] o.op \in {"clear", "assign_empty"} -> EmptyArr
    [] o.op = "reshape"       -> Arr(o.x.shape, o.x.first, arr[o.s].val)
    [] o.op = "assign_fill"   -> FillArr(o.x, o.v)

(* effect on the source slot *)
(* a move transfers the storage when the destination ends up with an allocator equal to the source's; *)
(* otherwise the elements are moved one by one and the source is left valid but unspecified            *)
MoveSteals(o) ==
  CASE o.op = "ctor_move"    -> TRUE
    [] o.op = "ctor_move_al" -> EqualAl(o.v, alloc[o.t])
    [] o.op = "assign_move"  -> POCMA \/ EqualAl(alloc[o.s], alloc[o.t])
    [] OTHER -> FALSE
SourceAfter(o) ==
  CASE o.op \in {"ctor_move", "assign_move", "ctor_move_al"} -> IF MoveSteals(o) THEN EmptyArr ELSE Unspec
    [] o.op \in {"swap", "swap_views"} -> arr[o.s]
    [] OTHER -> arr[o.t]

(* allocator of slot o.s after the operation *)
AllocAfter(o) ==
  CASE o.op \in {"ctor_iota_al", "ctor_copy_al", "ctor_move_al"} -> o.v
    [] o.op \in {"ctor_copy"} -> Select(alloc[o.t])
    [] o.op = "ctor_move" -> alloc[o.t]
    [] o.op = "assign_copy" -> IF POCCA THEN alloc[o.t] ELSE alloc[o.s]
    [] o.op = "assign_move" -> IF POCMA THEN alloc[o.t] ELSE alloc[o.s]
    [] o.op = "swap" -> IF POCS THEN alloc[o.t] ELSE alloc[o.s]
    [] o.op = "destroy" -> 0
    [] o.op \in {"ctor_default", "ctor_ext", "ctor_fill", "ctor_iota", "ctor_view", "decay", "ctor_range", "ctor_ref", "ctor_rref", "ctor_other", "ctor_other_x", "ctor_il"} -> 0
    [] OTHER -> alloc[o.s]
AllocSourceAfter(o) ==
  CASE o.op = "swap" -> IF POCS THEN alloc[o.s] ELSE alloc[o.t]
    [] OTHER -> alloc[o.t]

(* documented preconditions beyond liveness *)
OpPre(o) ==
  /\ o.op \in OpSet
  \* swapping containers whose allocators are unequal and do not propagate is undefined (as for std containers)
  /\ (o.op = "swap" => (POCS \/ EqualAl(alloc[o.s], alloc[o.t])))
  \* a nested initializer list cannot express an array with zero elements but non-zero rank > 1 shape
  /\ (o.op \in {"ctor_il", "assign_il"} => (DimD >= 1 /\ DimD <= 3 /\ NE(arr[o.t]) > 0))
  \* assign(first,last) / array(first,last) take the range of sub-arrays: needs D >= 1
  /\ (o.op \in {"ctor_range", "assign_range"} => DimD >= 1)
  /\ (o.op = "assign_range_ptr" => DimD = 1)
  \* assign(first,last) with as many items as the array has rows assigns row by row: rows must match
  /\ (o.op \in {"assign_range", "assign_range_ptr"} => (arr[o.t].shape[1] # arr[o.s].shape[1] \/ arr[o.t].shape = arr[o.s].shape))

AStep(o) ==
  /\ OpPre(o)
  /\ arr' = [q \in Slots |-> IF q = o.s THEN Result(o) ELSE IF q = o.t /\ o.t # 0 THEN SourceAfter(o) ELSE arr[q]]
  /\ alloc' = [q \in Slots |-> IF q = o.s THEN AllocAfter(o) ELSE IF q = o.t /\ o.t # 0 THEN AllocSourceAfter(o) ELSE alloc[q]]
  /\ hist' = Append(hist, o)

AInit == arr = [s \in Slots |-> Dead] /\ alloc = [s \in Slots |-> 0] /\ hist = <<>>
ANext == Len(hist) < MaxDepth /\ \E o \in Cands : AStep(o)
ASpec == AInit /\ [][ANext]_avars

AVW == <<arr, alloc>>

-----------------------------------------------------------------------------
(* Invariants of the requirement itself *)
ATypeOK ==
  \A s \in Slots : IsSpec(arr[s]) =>
     /\ Len(arr[s].shape) = DimD /\ Len(arr[s].first) = DimD
     /\ Len(arr[s].val) = Prod(arr[s].shape)

(* value independence is structural in this model: an action changes only the slots it names *)
Independence ==
  [][\A o \in Cands : AStep(o) => \A q \in Slots \ {o.s, o.t} : arr'[q] = arr[q]]_avars

AExpect == [D |-> DimD, trivial |-> TrivialT, hist |-> hist,
            arrays |-> [s \in Slots |-> arr[s]], alloc |-> [s \in Slots |-> alloc[s]],
            steals |-> IF hist # <<>> /\ hist[Len(hist)].op \in {"ctor_move", "assign_move", "ctor_move_al"} THEN 1 ELSE 0]
AEmitC == (~AEmit) \/ hist = <<>> \/ PrintT(ToJson(AExpect))
=============================================================================
